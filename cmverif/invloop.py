"""Inductive-invariant schema for ``while`` loops (Newton driver, C09).

InvariantWhile(name, invariant, variant)
   entry      : the invariant is asserted in the state reaching the loop          (obligation  <name>/init/<label>)
   iteration  : every variable assigned in the body is havocked (fresh symbol of
                the same sort), the invariant is assumed, the body is executed
                once along every path;
                at the back edge the invariant is asserted                         (obligation  <name>/preserved/<label>)
                and, when a variant is given, it must have decreased by at least
                its stated amount while staying bounded below                      (obligation  <name>/variant)
   exit       : ``break`` / a false loop test continue with the code after the
                loop in the havocked-and-constrained state (so everything proved
                afterwards holds for every number of iterations).
Paths that reach a back edge end there (``PathEnd``); their obligations are kept.
"""
import ast

import z3

from .poly import P, normal
from .core import CheckerError
from . import pysym, kernel
from .pysym import Cond, Opaque, Obj, Poison, _Break, _Continue, to_z3, cond_z3, real, integer


class PathEnd(Exception):
    pass


_vec_ctr = [0]


class Vec(object):
    """opaque numeric vector/matrix value with an object identity (for aliasing) and a structural term"""
    def __init__(self, term, oid=None):
        self.term = term            # nested tuples / strings
        if oid is None:
            _vec_ctr[0] += 1
            oid = _vec_ctr[0]
        self.oid = oid

    def key(self):
        return self.term

    def text(self):
        return _t(self.term)

    def __repr__(self):
        return '<vec#%d %s>' % (self.oid, self.text()[:80])

    def _bin(self, op, o):
        if isinstance(o, Vec):
            return Vec((op, self.term, o.term))
        if isinstance(o, (int, P)):
            return Vec((op, self.term, ('scalar', normal(o).text() if isinstance(o, P) else str(o))))
        return NotImplemented

    def __add__(self, o):
        return self._bin('+', o)

    def __radd__(self, o):
        return self._bin('+', o)

    def __sub__(self, o):
        return self._bin('-', o)

    def __rsub__(self, o):
        if isinstance(o, Vec):
            return o._bin('-', self)
        return NotImplemented

    def __mul__(self, o):
        return self._bin('*', o)

    def __rmul__(self, o):
        return self._bin('*', o)

    def __neg__(self):
        return Vec(('neg', self.term))

    def sym_getattr(self, interp, name):
        if name == 'copy':
            def cp():
                v = Vec(self.term)                 # same value, new object
                v.fresh_copy = True
                return v
            return cp
        if name == 'dot':
            return lambda o: scalar_atom('dot', (self.term, o.term if isinstance(o, Vec) else str(o)))
        if name == 'max':
            return lambda: scalar_atom('max', self.term)
        if name == 'shape':
            return (integer('veclen'),)
        raise CheckerError('vector attribute %s needs a contract' % name)


class NullableVec(Vec):
    """havocked value of a variable that was None before the loop and is assigned in the body: it is either None or some
    array object about whose aliasing nothing is known"""
    def __init__(self, term, isnone):
        Vec.__init__(self, term)
        self.isnone = isnone            # Cond atom
        self.maybe_held = True


def _t(term):
    if isinstance(term, tuple):
        return '(' + ' '.join(_t(x) for x in term) + ')'
    return str(term)


SCALARS = {}


def scalar_atom(fn, term):
    name = '%s%s' % (fn, _t(term))
    SCALARS[name] = (fn, term)
    return P.atom(name)


def maxabs(v):
    return scalar_atom('maxabs', v.term)


class GhostList(object):
    """run.increments / run.cs : only the last element and emptiness are tracked symbolically;
    every append is recorded (value, path conditions at that moment)"""
    def __init__(self, name, kind, on_append=None):
        self.name = name
        self.kind = kind              # 'real' | 'vec'
        self.on_append = on_append    # callback(interp, ghost, value) called BEFORE the state is updated
        self.appended = []
        self.empty = True             # concretely empty (before any havoc)
        self.sym = False
        self.last = None
        self.nonempty = None          # Cond atom when symbolic

    def havoc(self, interp, tag):
        self.sym = True
        self.nonempty = Cond('atom', '%s_nonempty%s' % (self.name, tag))
        if self.kind == 'real':
            self.last = real('%s_last%s' % (self.name, tag))
        else:
            proto = getattr(self, 'proto', None)
            self.last = proto.sym_havoc('%s_last' % self.name, tag) if proto is not None else Vec(('elem', '%s_last%s' % (self.name, tag)))
            interp.path.log.append(('append', self.name, self.last.oid))

    def sym_getattr(self, interp, name):
        if name == 'append':
            def app(v):
                if self.on_append is not None:
                    self.on_append(interp, self, v)
                self.appended.append((v, list(interp.path.conds), len(interp.path.log)))
                interp.path.log.append(('append', self.name, getattr(v, 'oid', None)))
                self.last = v
                self.sym = True if self.sym else False
                self.empty = False
                if self.sym:
                    self.nonempty = True
            return app
        raise CheckerError('list method %s on ghost list' % name)

    def sym_len(self, interp):
        if not self.sym:
            return len(self.appended)
        if self.nonempty is True:
            return P.atom('len_%s' % self.name) + 1
        # symbolic length: positive iff nonempty
        return LenOf(self)

    def sym_load(self, interp, k, node):
        if k == -1:
            if not self.sym and not self.appended:
                raise pysym.SymRaise('IndexError', ('list index out of range',), node)
            return self.last
        raise CheckerError('ghost list index %r' % (k,))


class LenOf(object):
    def __init__(self, gl):
        self.gl = gl


def havoc_value(name, v, tag):
    """fresh symbol of the same sort as v"""
    v = pysym._unwrap0(v)
    if hasattr(v, 'sym_havoc'):
        return v.sym_havoc(name, tag)
    if isinstance(v, bool):
        return Cond('atom', '%s%s' % (name, tag))
    if isinstance(v, Cond):
        return Cond('atom', '%s%s' % (name, tag))
    if isinstance(v, int):
        return integer('%s%s' % (name, tag))
    if isinstance(v, P):
        if pysym.is_int_valued(v):
            return integer('%s%s' % (name, tag))
        return real('%s%s' % (name, tag))
    if isinstance(v, Vec):
        nv = Vec(('var', '%s%s' % (name, tag)))
        nv.maybe_held = True       # unless the loop invariant declares the variable owned (checked at the back edge)
        return nv
    if isinstance(v, Opaque):
        return Opaque(v.kind, havoc='%s%s' % (name, tag))
    if v is None:
        return NullableVec(('var', '%s%s' % (name, tag)), Cond('atom', '%s_is_None%s' % (name, tag)))
    raise CheckerError('cannot havoc %s of type %s' % (name, type(v).__name__))


class InvariantWhile(object):
    def __init__(self, name, invariant=None, variant=None, ghosts=(), sorts=None, owned=()):
        self.name = name
        self.invariant = invariant or (lambda interp, fr: [])
        self.variant = variant           # callable(interp, fr) -> (P expression, P minimal decrease, P lower bound) or None
        self.ghosts = ghosts             # GhostList objects summarised by this loop
        self.count = 0
        self.sorts = sorts or {}
        self.owned = owned             # names of array variables that must not alias an object held by a ghost list

    def _assert_owned(self, interp, fr, phase):
        held = {ev[2] for ev in interp.path.log if ev[0] == 'append'}
        for g in self.ghosts:
            if g.last is not None and hasattr(g.last, 'oid'):
                held.add(g.last.oid)
        for n in self.owned:
            v = fr.l.get(n)
            if hasattr(v, 'oid'):
                ok = v.oid not in held and not getattr(v, 'maybe_held', False)
                interp.path.obligations.append(('syntactic', '%s/%s/%s-does-not-alias-a-reported-state' % (self.name, phase, n), ok, []))

    def _assert(self, interp, fr, phase):
        self._assert_owned(interp, fr, phase)
        for label, goal in self.invariant(interp, fr):
            interp.path.obligations.append(('assert', '%s/%s/%s' % (self.name, phase, label), goal, list(interp.path.conds)))

    def run_while(self, interp, s, fr):
        self.count += 1
        tag = '@%s%d' % (self.name, self.count)
        self._assert(interp, fr, 'init')
        assigned = kernel.assigned_names(s.body)
        for n in assigned:
            if n in fr.l:
                proto = self.sorts.get(n, fr.l[n])
                fr.l[n] = havoc_value(n, proto, tag)
                if n in self.owned and hasattr(fr.l[n], 'maybe_held'):
                    fr.l[n].maybe_held = False
        for g in self.ghosts:
            g.havoc(interp, tag)
        for label, goal in self.invariant(interp, fr):
            interp.path.conds.append(goal if isinstance(goal, Cond) else _Z3Cond(goal))
        var0 = self.variant(interp, fr) if self.variant else None
        # loop test
        tv = interp.eval(s.test, fr)
        if not interp.truth(tv):
            interp.exec_block(s.orelse, fr)
            return
        try:
            interp.exec_block(s.body, fr)
        except _Continue:
            pass
        except _Break:
            return
        # back edge
        self._assert(interp, fr, 'preserved')
        if var0 is not None:
            v1 = self.variant(interp, fr)
            e0, dec, lo = var0
            e1 = v1[0]
            interp.path.obligations.append(('assert', '%s/variant-decreases' % self.name, pysym.compare('<=', e1, e0 - dec), list(interp.path.conds)))
            interp.path.obligations.append(('assert', '%s/variant-bounded' % self.name, pysym.compare('>=', e0, lo), list(interp.path.conds)))
        raise PathEnd()

    def run_for(self, interp, s, it, fr):
        raise CheckerError('InvariantWhile on a for loop')


class _Z3Cond(Cond):
    """a path fact given directly as a z3 formula"""
    def __init__(self, f):
        Cond.__init__(self, 'z3', f)

    def neg(self):
        return _Z3Cond(z3.Not(self.a))

    def atoms(self):
        return set()

    def __repr__(self):
        return 'z3(%s)' % self.a


class HavocLoop(object):
    """over-approximation of a loop whose result is irrelevant for the property: every variable assigned in
    the body gets an arbitrary value of its sort and execution continues after the loop (the body is NOT
    checked: exception freedom and termination of this loop are recorded as unchecked)."""
    def __init__(self, name, sorts=None):
        self.name = name
        self.count = 0
        self.sorts = sorts or {}

    def run_while(self, interp, s, fr):
        self.count += 1
        tag = '@%s%d' % (self.name, self.count)
        for n in kernel.assigned_names(s.body):
            if n in fr.l or n in self.sorts:
                fr.l[n] = havoc_value(n, self.sorts.get(n, fr.l.get(n)), tag)

    run_for = run_while
