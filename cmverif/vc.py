"""Discharge of side obligations produced by the symbolic executor (z3/cvc5)."""
import time
import z3

from .poly import P, normal, DENOMS, inv_atoms, clear_one
from . import pysym
from .pysym import Cond, to_z3, cond_z3


def strip_negative(p):
    """p = M * q with M a monomial of negative powers; returns (q, atoms of M)"""
    neg = {}
    for m in p.t:
        for a, e in m:
            if e < 0:
                neg[a] = min(neg.get(a, 0), e)
    if not neg:
        return p, []
    mult = P({tuple(sorted((a, -e) for a, e in neg.items())): 1})
    return p * mult, sorted(neg)


def polynomialize(p):
    """eliminate reciprocal atoms and negative powers; returns (poly, [atoms/denominators assumed non-zero])"""
    used = []
    p = normal(p)
    for _ in range(30):
        xs = inv_atoms(p)
        if not xs:
            break
        q, k = clear_one(p, xs[0])
        used.append(xs[0])
        p = normal(q)
    p, negs = strip_negative(p)
    return p, used, negs


def prove(interp, goal, conds, timeout_ms=10000):
    """validity of  facts & conds => goal.  goal: Cond.  Returns (status, model_or_reason, seconds)
    status in valid / invalid / unknown"""
    s = z3.Solver()
    s.set('timeout', timeout_ms)
    for f in interp.facts:
        s.add(f)
    for c in conds:
        s.add(cond_z3(c) if isinstance(c, Cond) else c)
    s.add(z3.Not(cond_z3(goal) if isinstance(goal, Cond) else goal))
    t = time.time()
    r = s.check()
    dt = time.time() - t
    if r == z3.unsat:
        return 'valid', None, dt
    if r == z3.sat:
        m = s.model()
        return 'invalid', {str(d): str(m[d]) for d in m.decls()}, dt
    return 'unknown', s.reason_unknown(), dt


def prove_nonzero(interp, cond, conds):
    """cond is  D != 0  with D a Laurent polynomial possibly containing reciprocal atoms"""
    D = cond.b
    q, used, negs = polynomialize(D)
    # atoms with negative exponent must themselves be non-zero under the facts
    for a in negs:
        st, mdl, dt = prove(interp, Cond('cmp', '!=', P.atom(a)), conds)
        if st != 'valid':
            return st, {'because': 'atom %s in a denominator may vanish' % a, 'model': mdl}, dt
    return prove(interp, Cond('cmp', '!=', q), conds)
