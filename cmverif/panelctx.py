"""Python-level contracts for the panel layer: how Panel / PanelAssembly /
StiffPanelBay methods see the compiled kernels, the laminate and sparse.py.

A kernel call is modelled by its contract: it *reads* the attributes of the
panel object that the .pyx source reads (extracted mechanically from the source
on every run), requires C-convertible values for the typed locals they are
assigned to, and returns an opaque matrix term  kernel(name, model, snapshot,
scalar args).  The kernel contracts proper (value == Hessian) are discharged in
the kernel checks (C02-C04, C19); here only the *arguments* matter.
"""
import ast

import numpy as np

from .poly import P, normal
from .core import CheckerError
from . import pysym, shims
from .pysym import Obj, Opaque, SymRaise, Func, real, integer
from .kernel import InArray


def panel_reads(func):
    """attribute chains read from the object parameter of a kernel: {('a',), ('lam','ABD'), ...}
    and the C type of the local each is assigned to"""
    node = func.node
    sig = func.module.pyx.sigs.get(node.name, [])
    objparams = [n for t, n in sig if t == 'object']
    ctypes = func.ctypes
    reads = {}
    for n in ast.walk(node):
        if isinstance(n, ast.Attribute):
            chain = []
            x = n
            while isinstance(x, ast.Attribute):
                chain.append(x.attr)
                x = x.value
            if isinstance(x, ast.Name) and x.id in objparams:
                chain = tuple(reversed(chain))
                reads.setdefault((x.id, chain), None)
    # typed assignment targets
    for n in ast.walk(node):
        if isinstance(n, ast.Assign) and len(n.targets) == 1 and isinstance(n.targets[0], ast.Name) and isinstance(n.value, ast.Attribute):
            chain = []
            x = n.value
            while isinstance(x, ast.Attribute):
                chain.append(x.attr)
                x = x.value
            if isinstance(x, ast.Name) and x.id in objparams:
                reads[(x.id, tuple(reversed(chain)))] = ctypes.get(n.targets[0].id)
    # drop prefixes of longer chains (panel.lam is only a step towards panel.lam.ABD)
    keys = list(reads)
    for k in keys:
        if any(o != k and o[0] == k[0] and o[1][:len(k[1])] == k[1] and len(o[1]) > len(k[1]) for o in keys):
            reads.pop(k, None)
    return sig, reads


def raw_pointer_params(func, sig):
    """memoryview parameters declared strided (``double [:] x``) whose address is taken (``&x[0]`` -> PTR(x, 0)): the callee walks raw
    memory, so the wrapper is only correct for C-contiguous arguments (Cython does not check that for ``[:]``)"""
    used = set()
    for n in ast.walk(func.node):
        if isinstance(n, ast.Call) and isinstance(n.func, ast.Name) and n.func.id == 'PTR' and n.args and isinstance(n.args[0], ast.Name):
            used.add(n.args[0].id)
    return [nme for t, nme in sig if nme in used and str(t).replace(' ', '').endswith('[:]')]


def require_contiguous(raw_params, nme, v, modname, fname):
    if nme in raw_params and getattr(v, 'contiguous', True) is False:
        raise SymRaise('KernelPrecondition', ('%s.%s reads the memory of its argument %s through a raw pointer (&%s[0]): the array must be '
                                              'C-contiguous, the caller passes an array of arbitrary layout (e.g. a column of a matrix)'
                                              % (modname, fname, nme, nme),))


def _is_number(v):
    v = pysym._unwrap0(v)
    return isinstance(v, (P, int)) and not isinstance(v, bool) or isinstance(v, bool)


def kernel_contract(interp, func, calls):
    sig, reads = panel_reads(func)
    qual = func.qualname
    modname = func.module.name.split('.')[-1]
    fname = func.node.name
    defaults = func.defaults or []
    clsreq = class_requirement(func)
    objparams_ = [n for t, n in sig if t == 'object']
    rets = [n.value for n in ast.walk(func.node) if isinstance(n, ast.Return) and n.value is not None]
    raw_params = raw_pointer_params(func, sig)
    returns_memoryview = bool(rets) and all(isinstance(r, ast.Name) and str(func.ctypes.get(r.id, '')).replace(' ', '').endswith('[:]') for r in rets)

    def contract(itp, args, kwargs):
        names = [n for t, n in sig]
        if len(args) > len(names):
            raise SymRaise('TypeError', ('%s() takes %d positional arguments but %d were given' % (fname, len(names), len(args)),))
        bound = dict(zip(names, args))
        for k, v in kwargs.items():
            if k not in names:
                raise SymRaise('TypeError', ("%s() got an unexpected keyword argument '%s'" % (fname, k),))
            if k in bound:
                raise SymRaise('TypeError', ('%s() got multiple values for argument %s' % (fname, k),))
            bound[k] = v
        nd = len(defaults)
        for idx, nme in enumerate(names):
            if nme not in bound:
                di = idx - (len(names) - nd)
                if di >= 0:
                    bound[nme] = defaults[di]
                else:
                    raise SymRaise('TypeError', ("%s() missing required argument '%s'" % (fname, nme),))
        scal = {}
        snap = {}
        for t, nme in sig:
            v = bound[nme]
            if t in ('double', 'int', 'long'):
                if not _is_number(v):
                    raise SymRaise('TypeError', ('%s(): argument %s must be a real number, not %s' % (fname, nme, type(v).__name__),))
                scal[nme] = pysym._unwrap0(v)
            elif t == 'object' and not isinstance(v, Obj):
                scal[nme] = v            # a python object used as data (e.g. the laminate table Finput)
            elif t == 'object':
                cname = v.cls.name if v.cls is not None else ''
                if clsreq == 'contains' and 'Panel' not in cname:
                    raise SymRaise('ValueError', ('a Panel object must be given as input',))
                if clsreq == 'equals' and cname != 'Panel':
                    raise SymRaise('ValueError', ('A Panel object must be passed',))
                snap[nme] = v
            else:
                scal[nme] = v            # memoryviews (c, Fnxny, xs, ys ...)
                require_contiguous(raw_params, nme, v, modname, fname)
        values = {}
        for (objname, chain), ctype in sorted(reads.items()):
            o = bound[objname]
            cur = o
            for a in chain:
                cur = itp.getattr(cur, a)     # AttributeError if missing -- also logs the read
            if ctype in ('double', 'int', 'long'):
                if not _is_number(cur):
                    raise SymRaise('TypeError', ('%s(): %s.%s must be a real number, not %s' % (fname, objname, '.'.join(chain), 'NoneType' if cur is None else type(cur).__name__),))
                cur = pysym._unwrap0(cur)
            values[('.'.join(chain)) if len(objparams_) == 1 else (objname + '.' + '.'.join(chain))] = cur
        res = Opaque('kernel', fn=fname, model=modname, args={k: v for k, v in scal.items() if not hasattr(v, 'nfills')}, panel=values, objs=tuple(objparams_))
        for k, v in scal.items():
            if hasattr(v, 'nfills'):        # work matrix filled by this kernel (fg)
                v.fill = res
                v.nfills += 1
        calls.append(res)
        if returns_memoryview:
            # ``cdef double [:] x ... return x``: Python receives a typed memoryview, which has no arithmetic
            return pysym.MemView(res)
        return res
    return contract


FIELD_OUT = {'fuvw': ('u', 'v', 'w', 'phix', 'phiy'), 'fstrain': ('exx', 'eyy', 'gxy', 'kxx', 'kyy', 'kxy')}


def field_atom(kind, cname, pkey, x, y, nl=None):
    return P.atom('FIELD[%s%s](c=%s;panel=%s;x=%s;y=%s)' % (kind, '' if nl is None else ',NL=%s' % nl, cname, pkey,
                                                           normal(x).text() if isinstance(x, P) else x, normal(y).text() if isinstance(y, P) else y))


def panel_key(values):
    import hashlib
    return hashlib.sha1(repr(sorted((k, vkey(v)) for k, v in values.items())).encode()).hexdigest()[:10]


def field_contract(interp, func, calls):
    """fuvw / fstrain (contract proved in the C11 kernel check): for every requested point, in the order given, the
    series / strain operator evaluated with the amplitude vector passed and the panel attributes read"""
    sig, reads = panel_reads(func)
    fname = func.node.name
    modname = func.module.name.split('.')[-1]
    defaults = func.defaults or []
    raw_params = raw_pointer_params(func, sig)

    def contract(itp, args, kwargs):
        names = [n for t, n in sig]
        bound = dict(zip(names, args))
        for k, v in kwargs.items():
            if k not in names:
                raise SymRaise('TypeError', ("%s() got an unexpected keyword argument '%s'" % (fname, k),))
            bound[k] = v
        nd = len(defaults)
        for idx, nme in enumerate(names):
            if nme not in bound:
                di = idx - (len(names) - nd)
                if di >= 0:
                    bound[nme] = defaults[di]
                else:
                    raise SymRaise('TypeError', ("%s() missing required argument '%s'" % (fname, nme),))
        c, p, xs, ys = bound['c'], bound['p'], bound['xs'], bound['ys']
        for nme in names:
            require_contiguous(raw_params, nme, bound[nme], modname, fname)
        if not isinstance(p, Obj):
            raise SymRaise('AttributeError', ('%s(): p is not a panel object' % fname,))
        values = {}
        for (objname, chain), ctype in sorted(reads.items()):
            cur = p
            for a in chain:
                cur = itp.getattr(cur, a)
            if ctype in ('double', 'int', 'long') and not _is_number(cur):
                raise SymRaise('TypeError', ('%s(): p.%s must be a real number, not %s' % (fname, '.'.join(chain), 'NoneType' if cur is None else type(cur).__name__),))
            values['.'.join(chain)] = pysym._unwrap0(cur)
        if fname == 'fstrain':
            al = values.get('alpharad')
            if isinstance(al, P) and not al.is_zero():
                if itp.truth(pysym.compare('!=', al, 0)):
                    raise SymRaise('NotImplementedError', ('Conical shells not suported',))
        xs = np.asarray(xs, dtype=object)
        ys = np.asarray(ys, dtype=object)
        if xs.ndim != 1 or ys.ndim != 1:
            raise SymRaise('ValueError', ('Buffer has wrong number of dimensions (expected 1, got %d)' % xs.ndim,))
        if xs.shape != ys.shape:
            raise CheckerError('%s contract: xs and ys differ in length (kernel reads ys out of bounds)' % fname)
        cname = getattr(c, 'name', None) or repr(c)
        nl = None
        if fname == 'fstrain':
            nlv = bound.get('NLterms', 0)
            nl = normal(nlv).text() if isinstance(nlv, P) else str(int(nlv))
        pk = panel_key(values)
        call = Opaque('field-call', fn=fname, model=modname, c=cname, panel=values, pkey=pk, nl=nl,
                      num_cores=bound.get('num_cores'), npts=xs.shape[0])
        calls.append(call)
        outs = []
        for kind in FIELD_OUT[fname]:
            a = np.empty(xs.shape, dtype=object)
            for i in range(xs.shape[0]):
                a[i] = field_atom(kind, cname, pk, xs[i], ys[i], nl)
            outs.append(a)
        return tuple(outs)
    return contract


def class_requirement(func):
    """how the kernel source tests the class of its object argument (mechanically read from the source)"""
    for n in ast.walk(func.node):
        if isinstance(n, ast.Compare) and len(n.ops) == 1:
            consts = [x for x in [n.left] + n.comparators if isinstance(x, ast.Constant) and x.value == 'Panel']
            if not consts:
                continue
            if isinstance(n.ops[0], (ast.In, ast.NotIn)):
                return 'contains'
            if isinstance(n.ops[0], (ast.Eq, ast.NotEq)):
                return 'equals'
    return None


CONN_MODULES = ['kCSSxcte', 'kCSSycte', 'kCBFxcte', 'kCBFycte', 'kCSB']
PANEL_MODELS = ['plate_clt_donnell_bardell', 'plate_clt_donnell_bardell_w', 'cpanel_clt_donnell_bardell',
                'kpanel_clt_donnell_bardell', 'plate_clt_donnell_bardell_num', 'cpanel_clt_donnell_bardell_num']
MATRIX_KERNELS = ('fk0', 'fk0y1y2', 'fkG0', 'fkG0y1y2', 'fkM', 'fkMy1y2', 'fkAx', 'fkAy', 'fcA', 'fkL_num', 'fkG_num', 'calc_fint')


def install(interp, calls):
    """contracts for everything below the Python panel layer"""
    for mn in PANEL_MODELS:
        mod = interp.module('compmech.panel.models.' + mn)
        for fn, f in list(mod.g.items()):
            if isinstance(f, Func) and fn in MATRIX_KERNELS:
                interp.contracts[f.qualname] = kernel_contract(interp, f, calls)

    for mn in CONN_MODULES:
        mod = interp.module('compmech.panel.connections.' + mn)
        for fn, f in list(mod.g.items()):
            if isinstance(f, Func) and fn.startswith('fkC'):
                interp.contracts[f.qualname] = kernel_contract(interp, f, calls)
    for mn in ('clt_bardell_field', 'clt_bardell_field_w'):
        mod = interp.module('compmech.panel.models.' + mn)
        for fn, f in list(mod.g.items()):
            if isinstance(f, Func) and fn == 'fg':
                interp.contracts[f.qualname] = kernel_contract(interp, f, calls)
            elif isinstance(f, Func) and fn in ('fuvw', 'fstrain'):
                interp.contracts[f.qualname] = field_contract(interp, f, calls)

    # C01 contract of read_stack: laminate object with ABD = spec(stack, plyts, laminaprops, offset)
    def read_stack(itp, args, kw):
        names = ['stack', 'plyt', 'laminaprop', 'plyts', 'laminaprops', 'offset']
        b = dict(zip(names, args))
        for k, v in kw.items():
            if k not in names:
                raise SymRaise('TypeError', ('read_stack() got an unexpected keyword argument %s' % k,))
            b[k] = v
        b.setdefault('plyt', None)
        b.setdefault('laminaprop', None)
        b.setdefault('plyts', [])
        b.setdefault('laminaprops', [])
        b.setdefault('offset', P.const(0))
        stack = b['stack']
        plyts = b['plyts'] if b['plyts'] else ([b['plyt']] * len(stack) if b['plyt'] is not None else None)
        props = b['laminaprops'] if b['laminaprops'] else ([b['laminaprop']] * len(stack) if b['laminaprop'] is not None else None)
        if plyts is None or props is None:
            raise SymRaise('ValueError', ('plyt(s)/laminaprop(s) must be supplied',))
        lam = Obj(None)
        lam.name = 'lam#%d' % itp._next_obj()
        spec = Opaque('ABDspec', stack=list(stack), plyts=list(plyts), laminaprops=list(props), offset=b['offset'])
        lam.attrs['ABD'] = LamMatrix(spec, 6)
        lam.attrs['ABDE'] = LamMatrix(spec, 8)
        lam.attrs['A'] = LamBlock(spec, 'A')
        lam.attrs['B'] = LamBlock(spec, 'B')
        lam.attrs['D'] = LamBlock(spec, 'D')
        lam.attrs['t'] = sum(plyts[1:], plyts[0]) if plyts else 0
        lam.attrs['offset'] = b['offset']
        lam.attrs['spec'] = spec
        return lam
    interp.contracts['compmech.composite.laminate.read_stack'] = read_stack

    def finalize_sym(itp, args, kw):
        return Opaque('symmetrized', of=args[0])
    interp.contracts['compmech.sparse.finalize_symmetric_matrix'] = finalize_sym
    interp.contracts['compmech.sparse.make_symmetric'] = lambda itp, a, k: Opaque('symmetrized', of=a[0])
    interp.contracts['compmech.sparse.make_skew_symmetric'] = lambda itp, a, k: Opaque('skew-symmetrized', of=a[0])
    interp.contracts['scipy.sparse.csr_matrix'] = lambda itp, a, k: a[0] if isinstance(a[0], Opaque) else Opaque('csr', of=a[0], **k)
    interp.contracts['scipy.sparse.coo_matrix'] = lambda itp, a, k: a[0] if isinstance(a[0], Opaque) else Opaque('coo', of=a[0], **k)
    interp.contracts['attr:kernel.data'] = lambda itp, o: 0
    interp.contracts['attr:sum.data'] = lambda itp, o: 0
    interp.contracts['attr:scale.data'] = lambda itp, o: 0


class LamMatrix(object):
    """the laminate matrix returned by the read_stack contract: an array whose entries are spec atoms;
    in-place writes (force_orthotropic, shear correction) are recorded"""
    def __init__(self, spec, n):
        self.spec = spec
        self.n = n
        self.writes = []
        self.shape = (n, n)

    def sym_load(self, interp, k, node):
        for (kk, v) in reversed(self.writes):
            if kk == k:
                return v
        import hashlib
        h = hashlib.sha1(repr(self.spec.key()).encode()).hexdigest()[:8]
        if isinstance(k, tuple) and len(k) == 2 and all(isinstance(x, int) for x in k):
            return P.atom('ABD%d%d<lam:%s>' % (k[0], k[1], h))
        return Opaque('ABDentry', spec=self.spec, idx=k)

    def sym_store(self, interp, k, v, node):
        self.writes.append((k, v))

    def sym_getattr(self, interp, name):
        if name == 'shape':
            return self.shape
        if name == 'copy':
            def cp(*a, **k):
                m = LamMatrix(self.spec, self.n)          # same values, another object: later writes to one do not reach the other
                m.writes = list(self.writes)
                return m
            return cp
        raise CheckerError('laminate matrix attribute %s' % name)

    def effective_writes(self):
        eff = {}
        for k, v in self.writes:
            eff[repr(k)] = repr(v)                        # the last write to an index wins
        return tuple(sorted(eff.items()))

    def key(self):
        return ('LamMatrix', self.spec.key(), self.n, self.effective_writes())


class LamBlock(object):
    """A / B / D block of the read_stack contract: entries are scalar atoms  A11(stack...)  (reals)"""
    def __init__(self, spec, blk):
        self.spec, self.blk = spec, blk

    def sym_load(self, interp, k, node):
        i, j = k
        import hashlib
        h = hashlib.sha1(repr(self.spec.key()).encode()).hexdigest()[:8]
        i, j = min(i, j), max(i, j)
        return P.atom('%s%d%d<lam:%s>' % (self.blk, i + 1, j + 1, h))


def vkey(v):
    """structural key of any symbolic value (for equality of snapshots)"""
    if isinstance(v, Opaque):
        return v.key()
    if isinstance(v, LamMatrix):
        return v.key()
    if isinstance(v, P):
        return ('P', normal(v).text())
    if isinstance(v, int) and not isinstance(v, bool):
        return ('P', P.const(v).text())
    if isinstance(v, bool) or v is None or isinstance(v, str):
        return ('v', repr(v))
    if isinstance(v, (list, tuple)):
        return tuple(vkey(x) for x in v)
    if isinstance(v, Obj):
        return ('obj', v.name)
    if isinstance(v, np.ndarray):
        return ('arr', v.shape, tuple(vkey(x) for x in v.reshape(-1)))
    if isinstance(v, dict):
        return tuple(sorted((k, vkey(x)) for k, x in v.items()))
    return ('v', repr(v))


def new_panel(interp, **kwargs):
    """a Panel built by the real constructor, then given symbolic edge flags"""
    mod = interp.module('compmech.panel._panel')
    p = interp.call(mod.g['Panel'], [], kwargs)
    p.name = kwargs.pop('_name', 'panel')
    return p


def symbolic_flags(p, suffix=''):
    from .kharness import FLAG_NAMES
    for f in FLAG_NAMES:
        p.attrs[f] = real(f + suffix)
