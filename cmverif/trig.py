"""Trigonometric atoms with structured arguments, for the closed-form shell kernels.

sin/cos of an argument  sum_k n_k * b_k  (n_k integer, b_k a monomial "base angle") are expanded with the
addition and multiple-angle formulas into polynomials over the atoms sin(b_k), cos(b_k); together with
sin^2 = 1 - cos^2 (poly.trig_normal) this is a canonical form as long as the base angles are independent.
Integer multiples of pi (integer-valued monomials times the atom ``pi``) are folded into parity atoms
``sgn[k]`` = (-1)**k with sgn^2 = 1.

Mathematical facts used (assumption A3 of DESIGN, listed in every evidence file that uses this module):
  sin(a+b), cos(a+b) addition formulas; sin^2+cos^2 = 1; sin(k*pi) = 0, cos(k*pi) = (-1)^k for integer k;
  d/dx sin = cos, d/dx cos = -sin and the chain rule.
The code's ``pi`` is the double nearest to pi; it is treated as pi (machine arithmetic as mathematical).
"""
from fractions import Fraction

from .poly import P, normal, trig_normal, DENOMS
from .core import CheckerError
from . import pysym

TRIG = {}     # atom name -> (kind, base P)
PI = 'pi'


def _lift(x):
    if isinstance(x, P):
        return x
    return P.const(x)


def _is_int_monomial(m):
    """monomial (without its coefficient) is  pi * product of integer atoms with positive exponents"""
    d = dict(m)
    if d.get(PI) != 1:
        return False
    for a, e in m:
        if a == PI:
            continue
        if e < 0 or a not in pysym.INT_ATOMS:
            return False
    return True


def split(arg):
    """arg -> (parity exponent P (integer valued), [(n, base P)] sorted)"""
    arg = normal(_lift(arg))
    par = P({})
    terms = []
    for m in sorted(arg.t):
        c = arg.t[m]
        if not m:
            raise CheckerError('trig argument with a constant term: %s' % arg.text())
        if _is_int_monomial(m) and c.denominator == 1:
            k = P({tuple((a, e) for a, e in m if a != PI): c})
            par = par + k
            continue
        if c.denominator != 1:
            base = P({m: Fraction(1, c.denominator)})
            n = c.numerator
        else:
            base = P({m: Fraction(1)})
            n = int(c)
        terms.append((n, base))
    return par, terms


def _atom(kind, base):
    name = '%s(%s)' % (kind, base.text())
    if name not in TRIG:
        TRIG[name] = (kind, base)
        from . import kernel as _kernel
        d = set()
        for a in base.atoms():
            d.add(a)
            d |= _kernel.ATOM_DEPS.get(a, set())
        if d:
            _kernel.ATOM_DEPS[name] = d
    return P.atom(name)


def _multiple(n, base):
    """(sin(n*base), cos(n*base)) as polynomials in sin(base), cos(base)"""
    s, c = _atom('sin', base), _atom('cos', base)
    if n < 0:
        sn, cn = _multiple(-n, base)
        return -sn, cn
    if n == 0:
        return P.const(0), P.const(1)
    s0, c0 = P.const(0), P.const(1)
    s1, c1 = s, c
    for _ in range(n - 1):
        s0, s1 = s1, 2 * c * s1 - s0
        c0, c1 = c1, 2 * c * c1 - c0
    return s1, c1


def sgn(k):
    """(-1)**k for an integer-valued polynomial k"""
    k = normal(_lift(k))
    out = P.const(1)
    for m, c in k.t.items():
        if c.denominator != 1:
            raise CheckerError('(-1)**(%s): non-integer exponent' % k.text())
        if int(c) % 2 == 0:
            continue
        if not m:
            out = -out
            continue
        for a, e in m:
            if a not in pysym.INT_ATOMS or e < 0:
                raise CheckerError('(-1)**(%s): exponent is not integer valued' % k.text())
        # (-1)**(i*j) is not a product of sgn atoms; only single atoms with odd total exponent appear
        if len(m) != 1:
            raise CheckerError('(-1)**(%s): product exponent' % k.text())
        out = out * P.atom('sgn[%s]' % m[0][0])      # i**e has the parity of i
    return out


def sgn_normal(p):
    if not any(a.startswith('sgn[') for a in p.atoms()):
        return p
    d = {}
    for m, c in p.t.items():
        nm = tuple((a, (e % 2 if a.startswith('sgn[') else e)) for a, e in m)
        nm = tuple((a, e) for a, e in nm if e)
        d[nm] = d.get(nm, 0) + c
    return P({m: c for m, c in d.items() if c})


def sincos(arg):
    par, terms = split(arg)
    s, c = P.const(0), P.const(1)
    for n, base in terms:
        sn, cn = _multiple(n, base)
        s, c = s * cn + c * sn, c * cn - s * sn
    sg = sgn(par)
    return tnormal(s * sg), tnormal(c * sg)


def tsin(arg):
    return sincos(arg)[0]


def tcos(arg):
    return sincos(arg)[1]


def tnormal(p):
    return sgn_normal(trig_normal(normal(p)))


def _depends(a, names):
    if a in names:
        return True
    if a in TRIG:
        return bool(TRIG[a][1].atoms() & names)
    if a.startswith('inv[') and a in DENOMS:
        return any(_depends(b, names) for b in DENOMS[a].atoms())
    if a.startswith('sgn['):
        return a[4:-1] in names
    return False


def tsubs(p, mapping):
    """substitution that re-evaluates trig atoms whose base angle mentions a substituted atom"""
    mp = dict(mapping)
    full = {}
    for a in p.atoms():
        if a in TRIG:
            kind, base = TRIG[a]
            if base.atoms() & set(mp):
                nb = base.subs(mp)
                full[a] = tsin(nb) if kind == 'sin' else tcos(nb)
        elif a.startswith('inv['):
            if _depends(a, set(mp)):
                den = tsubs(DENOMS[a], mp)
                den = normal(den)
                if den.is_zero():
                    raise ZeroDivisionError('substitution makes the denominator %s vanish' % a)
                full[a] = P.const(1) / den
        elif a.startswith('sgn['):
            inner = a[4:-1]
            if inner in mp:
                full[a] = sgn(mp[inner])
    for k, v in mp.items():
        full.setdefault(k, v)
    return tnormal(p.subs(full))


def tdiff(p, var):
    """d p / d var  with the chain rule through trig atoms"""
    out = p.diff(var)
    for a in p.atoms():
        if a == var:
            continue
        if a in TRIG:
            kind, base = TRIG[a]
            if var in base.atoms():
                db = base.diff(var)
                da = _atom('cos', base) if kind == 'sin' else -_atom('sin', base)
                out = out + p.diff(a) * da * db
        elif a.startswith('inv['):
            if _depends(a, {var}):
                den = DENOMS[a]
                out = out - p.diff(a) * P.atom(a, 2) * tdiff(den, var)
        elif a.startswith('sqrt[') or a.startswith('SUM{'):
            raise CheckerError('derivative through atom %s' % a)
    return tnormal(out)
