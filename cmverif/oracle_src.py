"""Source text of the numerical oracle that runs under /venv/bin/python next to the real package
(replay only).  Independent of the repository: Bardell functions from the defining formula, energies
integrated by numpy Gauss-Legendre quadrature."""

SRC = r'''
import numpy as np
from math import factorial
from numpy.polynomial import polynomial as Pn

def _dfact(n):
    r = 1
    while n > 1:
        r *= n; n -= 2
    return r

def bardell_poly(i):
    if i == 0: return np.array([0.5, -0.75, 0., 0.25])
    if i == 1: return np.array([0.125, -0.125, -0.125, 0.125])
    if i == 2: return np.array([0.5, 0.75, 0., -0.25])
    if i == 3: return np.array([-0.125, -0.125, 0.125, 0.125])
    r = i + 1
    co = np.zeros(r)
    for n in range(0, r//2 + 1):
        p = r - 2*n - 1
        if p < 0: continue
        co[p] += (-1)**n * _dfact(2*r - 2*n - 7) / (2.**n * factorial(n) * factorial(p))
    return co

def fvals(m, xi, flags, order):
    out = np.zeros((m, len(xi)))
    for i in range(m):
        c = bardell_poly(i)
        for _ in range(order): c = Pn.polyder(c)
        v = Pn.polyval(xi, c)
        if i < 4: v = v * flags[i]
        out[i] = v
    return out

FL = ['1t', '1r', '2t', '2r']
def flags_of(p, d, ax):
    return [getattr(p, d + s + ax) for s in FL]

def shape_ops(p, num, xs_xi, ys_eta):
    """returns dict of (size x npts) arrays: value and derivatives of each dof field wrt x,y for unit amplitudes"""
    m, n = p.m, p.n
    size = num*m*n
    dofs = 'uvw' if num == 3 else 'w'
    sx = 2./p.a
    out = {}
    for di, d in enumerate(dofs):
        fx = [fvals(m, xs_xi, flags_of(p, d, 'x'), o) for o in range(3)]
        gy = [fvals(n, ys_eta, flags_of(p, d, 'y'), o) for o in range(3)]
        for ox in range(3):
            for oy in range(3):
                if ox + oy > 2: continue
                A = np.zeros((size, len(xs_xi)))
                for j in range(n):
                    for i in range(m):
                        A[num*(j*m + i) + di] = fx[ox][i]*gy[oy][j]
                out[(d, ox, oy)] = A
    return out, size

def oracle_matrix(p, which, num, kind, y12=None, load=None, nsec=41, ng=40):
    """kind: plate / cpanel / kpanel.  Returns the dense oracle matrix."""
    xg, wg = np.polynomial.legendre.leggauss(ng)
    a, bb = p.a, p.b
    size = num*p.m*p.n
    K = np.zeros((size, size))
    secs = [(0., a)] if kind != 'kpanel' else [(a*s/nsec, a*(s+1.)/nsec) for s in range(nsec)]
    e1, e2 = (-1., 1.) if y12 is None else (2*y12[0]/bb - 1, 2*y12[1]/bb - 1)
    for (x1, x2) in secs:
        if kind == 'kpanel':
            sa, ca = np.sin(p.alpharad), np.cos(p.alpharad)
            r = p.r - sa*(x1 + x2)/2.
            b = r*bb/p.r
            rp = -sa           # the radius shrinks along +x
        else:
            r = p.r if kind == 'cpanel' else None
            b = bb; rp = 0.; ca = 1.
        xi = ((x1 + x2)/2. + (x2 - x1)/2.*xg)*2./a - 1.
        wx = wg*(x2 - x1)/2.
        eta = (e1 + e2)/2. + (e2 - e1)/2.*xg
        wy = wg*(e2 - e1)/2.*b/2.
        XI, ETA = np.meshgrid(xi, eta, indexing='ij')
        W2 = np.outer(wx, wy).ravel()
        S, _ = shape_ops_grid(p, num, xi, eta)
        sx, sy = 2./a, 2./b
        def D(d, ox, oy):
            if (d, ox, oy) not in S: return 0.
            return S[(d, ox, oy)]*(sx**ox)*(sy**oy)
        z = np.zeros((size, len(W2)))
        if which in ('k0',):
            exx = D('u',1,0) + z
            eyy = D('v',0,1) + z
            gxy = D('u',0,1) + D('v',1,0) + z
            kxx = -D('w',2,0) + z
            kyy = -D('w',0,2) + z
            kxy = -2*D('w',1,1) + z
            if kind == 'cpanel':
                eyy = eyy + D('w',0,0)/r
            if kind == 'kpanel':
                eyy = eyy + (rp*D('u',0,0) + ca*D('w',0,0))/r
                gxy = gxy - rp*D('v',0,0)/r
                kyy = kyy - rp*D('w',1,0)/r
                kxy = kxy + rp*D('w',0,1)/r
            B = [exx, eyy, gxy, kxx, kyy, kxy]
            F = np.asarray(p.lam.ABD)
            for s_ in range(6):
                for t_ in range(6):
                    if F[s_, t_] != 0:
                        K += F[s_, t_]*(B[s_]*W2).dot(B[t_].T)
        elif which == 'kG0':
            Nxx, Nyy, Nxy = load
            wx_, wy_ = D('w',1,0) + z, D('w',0,1) + z
            K += Nxx*(wx_*W2).dot(wx_.T) + Nyy*(wy_*W2).dot(wy_.T) + Nxy*((wx_*W2).dot(wy_.T) + (wy_*W2).dot(wx_.T))
        elif which == 'kM':
            mu, h, d = load
            u, v, w = D('u',0,0) + z, D('v',0,0) + z, D('w',0,0) + z
            wx_, wy_ = D('w',1,0) + z, D('w',0,1) + z
            I0, I1, I2 = mu*h, mu*h*d, mu*h*(d*d + h*h/12.)
            K += I0*((u*W2).dot(u.T) + (v*W2).dot(v.T) + (w*W2).dot(w.T))
            K += -I1*((u*W2).dot(wx_.T) + (wx_*W2).dot(u.T) + (v*W2).dot(wy_.T) + (wy_*W2).dot(v.T))
            K += I2*((wx_*W2).dot(wx_.T) + (wy_*W2).dot(wy_.T))
    return K

def shape_ops_grid(p, num, xi, eta):
    m, n = p.m, p.n
    size = num*m*n
    dofs = 'uvw' if num == 3 else 'w'
    out = {}
    for di, d in enumerate(dofs):
        fx = [fvals(m, xi, flags_of(p, d, 'x'), o) for o in range(3)]
        gy = [fvals(n, eta, flags_of(p, d, 'y'), o) for o in range(3)]
        for ox in range(3):
            for oy in range(3):
                if ox + oy > 2: continue
                A = np.zeros((size, len(xi)*len(eta)))
                for j in range(n):
                    for i in range(m):
                        A[num*(j*m + i) + di] = np.outer(fx[ox][i], gy[oy][j]).ravel()
                out[(d, ox, oy)] = A
    return out, size

def generic_panel(model, y1y2):
    from compmech.panel import Panel
    kw = dict(a=1.3, b=0.7, stack=[0, 33, -48, 90], plyt=0.45e-3, laminaprop=(142.5e9, 8.7e9, 0.28, 5.1e9, 5.1e9, 5.1e9),
              mu=1650., m=5, n=4, offset=0.8e-3)
    if model in ('cpanel', 'kpanel'): kw['r'] = 2.1
    if model == 'kpanel': kw['alphadeg'] = 17.
    if model == 'plate_w': kw['model'] = 'plate_clt_donnell_bardell_w'
    if y1y2: kw['y1'] = 0.12; kw['y2'] = 0.53
    p = Panel(**kw)
    vals = iter([1., .5, 0., 1., 1., 1., 0., .7, 1., 0., 1., 1., .3, 1., 1., 0., 1., 1., 1., .2, 0., 1., 1., .9])
    for d in 'uvw':
        for ax in 'xy':
            for s in FL:
                setattr(p, d + s + ax, next(vals))
    return p

def compare_panel(which, model, y1y2):
    p = generic_panel(model, y1y2)
    num = 1 if model == 'plate_w' else 3
    kind = {'plate': 'plate', 'plate_w': 'plate', 'cpanel': 'cpanel', 'kpanel': 'kpanel'}[model]
    y12 = (p.y1, p.y2) if y1y2 else None
    if which == 'k0':
        real = p.calc_k0(silent=True).toarray()
        orc = oracle_matrix(p, 'k0', num, kind, y12)
    elif which == 'kG0':
        p.Nxx, p.Nyy, p.Nxy = -1.3e3, 0.7e3, 0.4e3
        p.calc_k0(silent=True)
        real = p.calc_kG0(silent=True).toarray()
        orc = oracle_matrix(p, 'kG0', num, kind, y12, load=(p.Nxx, p.Nyy, p.Nxy))
    elif which == 'kM':
        p.calc_k0(silent=True)
        real = p.calc_kM(silent=True).toarray()
        orc = oracle_matrix(p, 'kM', num, kind, y12, load=(p.mu, sum(p.plyts), p.offset))
    scale = abs(orc).max()
    diff = abs(real - orc)
    idx = np.unravel_index(diff.argmax(), diff.shape)
    return {"which": which, "model": model, "y1y2": y1y2, "max_rel_diff": float(diff.max()/scale),
            "at": [int(idx[0]), int(idx[1])], "real": float(real[idx]), "oracle": float(orc[idx]),
            "input": "generic panel a=1.3 b=.7 (r=2.1, alpha=17deg) unsymmetric 4-ply laminate offset .8mm, mixed edge flags, m=5 n=4"}
'''
