"""Shims for the external modules the repository code uses (numpy, scipy.sparse,
gc, ...).  Each shim states the contract assumed for the external function
(assumptions A3/A4); nothing here is verified -- every evidence file lists the
shims that were exercised (``Interp.shim_used``).

Arrays of symbolic scalars are numpy *object* arrays, so slicing, broadcasting,
``+=``, ``np.concatenate``, ``np.dot`` etc. run numpy's own implementation on
symbolic entries (exact, because P arithmetic is exact).
"""
from fractions import Fraction
import numpy as _np

from .poly import P, normal, sqrt_of
from .core import CheckerError
from . import pysym
from .pysym import SymRaise, Opaque, Cond, _unwrap0, is_int_valued
from .kernel import OutArray, InArray

PI = P.atom('pi')
TRIG_BASE = {}      # atom name -> (kind, argument polynomial), for the numeric guard


def _lift(x):
    x = _unwrap0(x)
    if isinstance(x, P):
        return x
    if isinstance(x, (int, Fraction)):
        return P.const(x)
    if isinstance(x, float):
        return P.const(x)
    raise SymRaise('TypeError', ('numeric value expected, got %r' % (type(x).__name__,),))


def _pi_shift(x):
    """x = y + q*pi with q the rational coefficient of the bare atom pi"""
    q = x.t.get((('pi', 1),), Fraction(0))
    if q == 0:
        return x, Fraction(0)
    return x - P({(('pi', 1),): q}), q


def sym_sin(x):
    if isinstance(x, _np.ndarray):
        return _map(sym_sin, x)
    x = normal(_lift(x))
    if x.is_zero():
        return P.const(0)
    y, q = _pi_shift(x)
    if q != 0 and (2 * q).denominator == 1:
        k = int(2 * q) % 4        # sin(y + k*pi/2)
        return [sym_sin(y), sym_cos(y), -sym_sin(y), -sym_cos(y)][k]
    if all(c.numerator % 2 == 0 for c in x.t.values()) and all(c.denominator == 1 for c in x.t.values()):
        h = x * Fraction(1, 2)
        return 2 * sym_sin(h) * sym_cos(h)
    first = x.t[min(x.t)]
    if first < 0:
        return -sym_sin(-x)
    TRIG_BASE['sin(%s)' % x.text()] = ('sin', x)
    return P.atom('sin(%s)' % x.text())


def sym_cos(x):
    if isinstance(x, _np.ndarray):
        return _map(sym_cos, x)
    x = normal(_lift(x))
    if x.is_zero():
        return P.const(1)
    y, q = _pi_shift(x)
    if q != 0 and (2 * q).denominator == 1:
        k = int(2 * q) % 4        # cos(y + k*pi/2)
        return [sym_cos(y), -sym_sin(y), -sym_cos(y), sym_sin(y)][k]
    if all(c.numerator % 2 == 0 for c in x.t.values()) and all(c.denominator == 1 for c in x.t.values()):
        h = x * Fraction(1, 2)
        return 2 * sym_cos(h) ** 2 - 1
    first = x.t[min(x.t)]
    if first < 0:
        return sym_cos(-x)
    TRIG_BASE['cos(%s)' % x.text()] = ('cos', x)
    return P.atom('cos(%s)' % x.text())


def sym_tan(x):
    return sym_sin(x) / sym_cos(x)


def sym_sqrt(x):
    if isinstance(x, _np.ndarray):
        return _map(sym_sqrt, x)
    return sqrt_of(_lift(x))


def sym_deg2rad(x):
    if isinstance(x, _np.ndarray):
        return _map(sym_deg2rad, x)
    return _lift(x) * PI * Fraction(1, 180)


def sym_rad2deg(x):
    return _lift(x) * 180 / PI


def _map(f, arr):
    out = _np.empty(arr.shape, dtype=object)
    for idx in _np.ndindex(arr.shape):
        out[idx] = f(arr[idx])
    return out


def _obj(x):
    """nested lists / arrays -> numpy object array with P / int entries"""
    if isinstance(x, _np.ndarray):
        a = x.astype(object) if x.dtype != object else x
        return a
    a = _np.empty(_shape_of(x), dtype=object)
    _fill(a, x, ())
    return a


def _shape_of(x):
    if isinstance(x, (list, tuple)):
        if not x:
            return (0,)
        return (len(x),) + _shape_of(x[0])
    if isinstance(x, _np.ndarray):
        return x.shape
    return ()


def _fill(a, x, idx):
    if isinstance(x, (list, tuple)):
        for i, v in enumerate(x):
            _fill(a, v, idx + (i,))
    elif isinstance(x, _np.ndarray) and x.ndim > 0:
        for i in range(x.shape[0]):
            _fill(a, x[i], idx + (i,))
    else:
        a[idx] = _unwrap0(x)


class NP(object):
    """the ``numpy`` module as seen by the interpreted code"""
    _is_shim = True
    float64 = 'float64'
    int64 = 'int64'
    pi = PI
    ndarray = None
    newaxis = None

    def __init__(self, interp):
        self.interp = interp
        self.ndarray = _NdarrayType()
        self.linalg = _Linalg(interp)
        self.used = set()

    def _u(self, n):
        self.used.add('numpy.' + n)

    def _is_int_dtype(self, dtype):
        nm = dtype if isinstance(dtype, str) else getattr(dtype, '__name__', '')
        return dtype is int or nm in ('int', 'b_int', 'int64', 'int32', 'intc', 'int_', 'long')

    def _as_int(self, a):
        """conversion to an integer dtype truncates: a real symbol becomes the uninterpreted trunc(x) (equal to x only for integers)"""
        out = _np.empty(a.shape, dtype=object)
        for idx in _np.ndindex(a.shape):
            v = pysym._unwrap0(a[idx])
            if isinstance(v, P) and not v.is_const() and not pysym.is_int_valued(v):
                v = P.atom('trunc(%s)' % normal(v).text())
            elif isinstance(v, P) and v.is_const():
                c_ = v.const_value()
                v = P.const(int(c_)) if c_ == c_ else v
            elif isinstance(v, float):
                v = int(v)
            out[idx] = v
        return out

    def array(self, x, dtype=None, copy=True):
        self._u('array')
        if self._is_int_dtype(dtype) and not isinstance(x, (InArray, OutArray, Opaque, pysym.MemView)):
            return self._as_int(_obj(x))
        if isinstance(x, pysym.MemView):
            return x.f['of']            # numpy takes the buffer of a typed memoryview
        if isinstance(x, InArray):
            return x.as_contiguous()    # np.array copies (order='K' of a 1-D strided view gives a contiguous copy)
        if isinstance(x, (OutArray, Opaque)):
            return x
        a = _obj(x)
        return a.copy(order='K') if a is x else a       # np.array(x): a copy that keeps the memory layout (order='K')

    def asarray(self, x, dtype=None):
        if isinstance(x, InArray):
            return x                    # no copy when the dtype already matches: the memory layout of the argument is kept
        if self._is_int_dtype(dtype) and not isinstance(x, (InArray, OutArray, Opaque, pysym.MemView)):
            return self._as_int(_obj(x))
        if isinstance(x, _np.ndarray) and x.dtype == object:
            return x                    # likewise for an array of the executor (a caller's float64 array): the SAME object comes back
        return self.array(x, dtype)

    def ascontiguousarray(self, x, dtype=None):
        self._u('ascontiguousarray')
        if isinstance(x, pysym.MemView):
            return x.f['of']
        if isinstance(x, InArray):
            return x.as_contiguous()
        if isinstance(x, (OutArray, Opaque)):
            return x
        return _obj(x)

    def atleast_1d(self, x):
        if isinstance(x, (InArray, OutArray, Opaque)):
            return x
        a = _obj(x)
        return a.reshape(1) if a.ndim == 0 else a

    def zeros(self, shape, dtype=None):
        self._u('zeros')
        shp = shape if isinstance(shape, (tuple, list)) else (shape,)
        shp = tuple(pysym._toint(s) for s in shp)
        if any(isinstance(s, P) for s in shp):
            if len(shp) == 2:
                from .kernel import FilledMat
                return FilledMat(self.interp.newname('mat'), shp)
            if len(shp) != 1:
                return OutArray(self.interp.newname('arr'), shp)
            return OutArray(self.interp.newname('arr'), shp[0], 'int' if dtype in (int, 'int64') else 'double')
        a = _np.empty(shp, dtype=object)
        a.fill(0)
        return a

    def delete(self, arr, obj, axis=None):
        self._u('delete')
        if isinstance(arr, Opaque):
            return Opaque('delete', of=arr, idx=[pysym._toint(i) for i in obj], axis=axis)
        if not isinstance(arr, _np.ndarray):
            raise pysym.CheckerError('np.delete on %s needs a contract' % type(arr).__name__)
        idx = [pysym._toint(i) for i in obj] if isinstance(obj, (list, tuple)) else pysym._toint(obj)
        return _np.delete(arr, idx, axis=axis)

    def insert(self, arr, obj, values, axis=None):
        self._u('insert')
        if not isinstance(arr, _np.ndarray):
            raise pysym.CheckerError('np.insert on %s needs a contract' % type(arr).__name__)
        a = arr.astype(object)
        return _np.insert(a, pysym._toint(obj), _unwrap0(values), axis=axis)

    def empty(self, shape, dtype=None):
        # unspecified content: every entry is a fresh unknown (symbolic shapes are handled by the abstract-array layer only)
        self._u('empty')
        shp = shape if isinstance(shape, (tuple, list)) else (shape,)
        shp = tuple(pysym._toint(s) for s in shp)
        if any(isinstance(s, P) for s in shp):
            raise CheckerError('np.empty with a symbolic shape is not modelled in this harness')
        a = _np.empty(shp, dtype=object)
        for idx in _np.ndindex(*shp):
            a[idx] = pysym.real(self.interp.newname('uninitialised'))
        return a

    def clip(self, x, lo, hi):
        # scalar clip: min(max(x, lo), hi), decided on the path
        if isinstance(x, _np.ndarray):
            return _map(lambda v: self.clip(v, lo, hi), x)
        x = _lift(x)
        if lo is not None and self.interp.truth(pysym.compare('<', x, _lift(lo))):
            return _lift(lo)
        if hi is not None and self.interp.truth(pysym.compare('>', x, _lift(hi))):
            return _lift(hi)
        return x

    def zeros_like(self, x):
        a = _np.empty(x.shape, dtype=object)
        a.fill(0)
        return a

    def ones(self, shape, dtype=None):
        a = self.zeros(shape)
        a.fill(1)
        return a

    def eye(self, n):
        a = self.zeros((n, n))
        for i in range(n):
            a[i, i] = 1
        return a

    def concatenate(self, arrs, axis=0):
        self._u('concatenate')
        return _np.concatenate([_obj(a) for a in arrs], axis=axis)

    def hstack(self, arrs):
        return _np.hstack([_obj(a) for a in arrs])

    def vstack(self, arrs):
        return _np.vstack([_obj(a) for a in arrs])

    def dot(self, a, b):
        self._u('dot')
        return _np.dot(_obj(a), _obj(b))

    def transpose(self, a):
        return _obj(a).T

    def ravel(self, a):
        return _obj(a).ravel()

    def reshape(self, a, shp):
        return _obj(a).reshape(shp)

    def deg2rad(self, x):
        self._u('deg2rad')
        return sym_deg2rad(x)

    def rad2deg(self, x):
        return sym_rad2deg(x)

    def radians(self, x):
        return sym_deg2rad(x)

    def sin(self, x):
        self._u('sin')
        return sym_sin(x)

    def cos(self, x):
        self._u('cos')
        return sym_cos(x)

    def tan(self, x):
        return sym_tan(x)

    def sqrt(self, x):
        self._u('sqrt')
        return sym_sqrt(x)

    def abs(self, x):
        if hasattr(x, 'term') and hasattr(x, 'oid'):
            from .invloop import Vec
            return _AbsVec(x)
        if isinstance(x, _np.ndarray):
            return _map(self.interp.builtins['abs'], x)
        return self.interp.builtins['abs'](x)

    def isclose(self, a, b, rtol=1e-05, atol=1e-08, equal_nan=False):
        # numpy's definition, |a - b| <= atol + rtol*|b|, decided on the current path (scalars only)
        a, b = pysym._unwrap0(a), pysym._unwrap0(b)
        if not all(isinstance(x, (P, int, float, Fraction)) and not isinstance(x, bool) for x in (a, b)):
            raise CheckerError('numpy.isclose of %s and %s is not modelled' % (type(a).__name__, type(b).__name__))
        a = a if isinstance(a, P) else P.const(a)
        b = b if isinstance(b, P) else P.const(b)
        tol = P.const(atol) + P.const(rtol) * self.interp.builtins['abs'](b)
        return bool(self.interp.truth(pysym.compare('<=', a - b, tol)) and self.interp.truth(pysym.compare('<=', b - a, tol)))

    def ndim(self, x):
        x0 = pysym._unwrap0(x)
        if isinstance(x0, (P, int, float, Fraction)):
            return 0
        if hasattr(x, 'writes') and hasattr(x, 'n'):          # laminate matrix model: n x n
            return 2
        shp = getattr(x, 'shape', None)
        if shp is None and isinstance(x, (list, tuple)):
            shp = _obj(x).shape
        if shp is None or any(d is None for d in shp):
            raise CheckerError('numpy.ndim of %s is not modelled' % type(x).__name__)
        return len(shp)

    def isnan(self, x):
        return False

    def isinf(self, x):
        return False

    def _abstract_anyall(self, x, what):
        # an array whose entries are not enumerated (input array of symbolic length, abstract array): one boolean unknown per array
        nm = getattr(x, 'name', None) or getattr(x, 'term', None)
        if nm is None:
            raise CheckerError('np.%s of %s is not modelled' % (what, type(x).__name__))
        return self.interp.truth(pysym.Cond('atom', '%s(%s)' % (what, nm if isinstance(nm, str) else repr(nm))))

    def any(self, x):
        if isinstance(x, bool):
            return x
        if isinstance(x, (InArray, OutArray)) or (hasattr(x, 'term') and hasattr(x, 'shape') and not isinstance(x, _np.ndarray)):
            return self._abstract_anyall(x, 'any')
        return any(self.interp.truth(v) for v in _obj(x).reshape(-1))

    def all(self, x):
        if isinstance(x, bool):
            return x
        if isinstance(x, (InArray, OutArray)) or (hasattr(x, 'term') and hasattr(x, 'shape') and not isinstance(x, _np.ndarray)):
            return self._abstract_anyall(x, 'all')
        return all(self.interp.truth(v) for v in _obj(x).reshape(-1))

    def linspace(self, a, b, n=50):
        n = pysym._toint(n)
        if not isinstance(n, int):
            raise CheckerError('linspace with symbolic count')
        a, b = _lift(a), _lift(b)
        out = _np.empty(n, dtype=object)
        for i in range(n):
            out[i] = a + (b - a) * Fraction(i, max(n - 1, 1))
        return out

    def meshgrid(self, x, y, copy=True):
        x, y = _obj(x), _obj(y)
        X = _np.empty((len(y), len(x)), dtype=object)
        Y = _np.empty((len(y), len(x)), dtype=object)
        for i in range(len(y)):
            for j in range(len(x)):
                X[i, j] = x[j]
                Y[i, j] = y[i]
        return [X, Y]

    def arange(self, *a):
        a = [pysym._toint(x) for x in a]
        return _np.array(list(range(*a)), dtype=object)

    def isscalar(self, x):
        return isinstance(_unwrap0(x), (int, P, Fraction))

    def sum(self, x, axis=None):
        return _obj(x).sum(axis=axis)

    def allclose(self, a, b, **k):
        raise CheckerError('numpy.allclose needs a contract')


class _AbsVec(object):
    def __init__(self, v):
        self.v = v

    def sym_getattr(self, interp, name):
        if name == 'max':
            from .invloop import maxabs
            if hasattr(self.v, 'sym_maxabs'):
                return lambda: self.v.sym_maxabs(interp)
            return lambda: maxabs(self.v)
        raise CheckerError('abs(vector).%s needs a contract' % name)


class _NdarrayType(object):
    def sym_isinstance(self, interp, o):
        return isinstance(o, (_np.ndarray, InArray, OutArray)) or (isinstance(o, Opaque) and o.kind in ('ndarray', 'vector'))


class _Linalg(object):
    _is_shim = True
    def __init__(self, interp):
        self.interp = interp

    def inv(self, a):
        raise CheckerError('numpy.linalg.inv needs a contract')


class Noop(object):
    """modules whose calls have no effect on the properties (gc, logging, plotting)"""
    def __init__(self, name):
        self._name = name

    def sym_getattr(self, interp, name):
        return Noop(self._name + '.' + name)

    def __call__(self, *a, **k):
        return None


def _noop(*a, **k):
    return None


def install(interp):
    np = NP(interp)
    interp.shims['numpy'] = np
    interp.np = np
    interp.shims['numpy.cos'] = np.cos
    interp.shims['numpy.sin'] = np.sin
    interp.shims['numpy.deg2rad'] = np.deg2rad
    interp.shims['numpy.linspace'] = np.linspace
    interp.shims['numpy.sqrt'] = np.sqrt
    interp.shims['numpy.pi'] = PI
    for n in ('gc', 'matplotlib', 'matplotlib.cm', 'matplotlib.pyplot', 'pickle', 'platform', 'traceback', 'time', 'inspect', 'os', 'sys', 'warnings', '__main__'):
        interp.shims[n] = Noop(n)
    interp.shims['multiprocessing'] = _MP()
    interp.shims['multiprocessing.cpu_count'] = lambda: pysym.integer('cpu_count')
    interp.shims['math'] = _Math()
    return np


class _MP(object):
    def sym_getattr(self, interp, name):
        if name == 'cpu_count':
            return lambda: pysym.integer('cpu_count')
        return _noop


class _Math(object):
    _is_shim = True
    pi = PI
    sin = staticmethod(sym_sin)
    cos = staticmethod(sym_cos)
    sqrt = staticmethod(sym_sqrt)
