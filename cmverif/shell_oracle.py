"""Numeric replays of shell-kernel findings on the real (compiled) package, run under /venv via pyreplay.run_real.

``HESSIAN``: builds a ConeCyl, takes k0 from ConeCyl._calc_linear_matrices and compares one entry with the Hessian of the strain
energy obtained by numerical quadrature of the package's own strain function (central difference in the amplitude removes the
quadratic terms).  ``CYLCONE``: calls the cone and the cylinder kernel of a linear module directly at alpha = 0.
"""

COMMON = r'''
import numpy as np
from compmech.conecyl import ConeCyl
from compmech.conecyl.modelDB import get_model

def make(payload):
    cc = ConeCyl()
    cc.model = payload['model']
    cc.m1, cc.m2, cc.n2 = payload['m1'], payload['m2'], payload['n2']
    cc.r2 = payload['r2']; cc.H = payload['H']; cc.alphadeg = payload['alphadeg']
    cc.s = payload.get('s', 200)
    if payload.get('iso'):
        cc.E11, cc.nu, cc.h = payload['iso']
        cc.laminaprop = None; cc.stack = []; cc.plyt = None
    else:
        cc.laminaprop = tuple(payload['laminaprop'])
        cc.stack = payload['stack']; cc.plyt = payload['plyt']
    cc.pdC = False; cc.pdT = False; cc.Fc = 1.
    return cc
'''

HESSIAN = COMMON + r'''
cc = make(payload)
cc._calc_linear_matrices()
k0 = np.asarray(cc.k0.todense()) if hasattr(cc.k0, 'todense') else np.asarray(cc.k0)
F = np.asarray(cc.F, dtype=float)
md = get_model(cc.model)
size = cc.get_size()
nx, nt = payload.get('nx', 2001), payload.get('nt', 128)
xs1 = np.linspace(0, cc.L, nx); ts1 = np.linspace(0, 2*np.pi, nt, endpoint=False)
X, T = np.meshgrid(xs1, ts1, indexing='ij')
kin = 1 if 'sanders' in cc.model else 0
c0 = np.zeros(1)
def lin_strain(A):
    eps = 1e-6
    out = []
    for sg in (1., -1.):
        c = np.zeros(size); c[A] = sg*eps
        es = md['commons'].fstrain(c, cc.sina, cc.cosa, cc.tLArad, X.ravel().copy(), T.ravel().copy(), cc.r2, cc.L,
                                   cc.m1, cc.m2, cc.n2, c0, 0, 0, 2, kin)
        out.append(np.asarray(es).reshape(-1, md['e_num']))
    return (out[0] - out[1])/(2*eps)
res = []
r = (cc.r2 + X*cc.sina).ravel()
w = np.ones(nx); w[1:-1:2] = 4; w[2:-1:2] = 2; w *= (xs1[1]-xs1[0])/3.
W = (w[:, None]*np.ones(nt)[None, :]*(2*np.pi/nt)).ravel()
for A, B in payload['pairs']:
    eA, eB = lin_strain(A), lin_strain(B)
    H = float(np.sum(np.einsum('pi,ij,pj->p', eA, F, eB)*r*W))
    res.append({'A': A, 'B': B, 'k0': float(k0[A, B]), 'energy_hessian': H})
out = {'entries': res, 'size': size}
'''

CYLCONE = COMMON + r'''
cc = make(payload)
cc.alphadeg = 0.
cc._rebuild()
import compmech.composite.laminate as laminate
lam = laminate.read_stack(cc.stack, plyts=[cc.plyt]*len(cc.stack), laminaprops=[cc.laminaprop]*len(cc.stack))
F = lam.ABDE.copy() if 'fsdt' in cc.model else lam.ABD.copy()
md = get_model(cc.model)
lin = md['linear']
if payload['which'] == 'k0':
    cone = lin.fk0(0., cc.r2, cc.L, F, cc.m1, cc.m2, cc.n2, payload.get('s', 7))
    cyl = lin.fk0_cyl(cc.r2, cc.L, F, cc.m1, cc.m2, cc.n2)
else:
    Fc, P, T = payload['loads']
    cone = lin.fkG0(Fc, P, T, cc.r2, 0., cc.L, cc.m1, cc.m2, cc.n2, payload.get('s', 7))
    cyl = lin.fkG0_cyl(Fc, P, T, cc.r2, cc.L, cc.m1, cc.m2, cc.n2)
from compmech.sparse import make_symmetric
cone = np.asarray(make_symmetric(cone).todense()); cyl = np.asarray(make_symmetric(cyl).todense())
d = np.abs(cone - cyl)
scale = max(np.abs(cone).max(), np.abs(cyl).max())
idx = np.argwhere(d > 1e-8*scale)
out = {'n_different': int(len(idx)), 'scale': float(scale),
       'first': [{'row': int(i), 'col': int(j), 'cone_at_alpha0': float(cone[i, j]), 'cylinder': float(cyl[i, j])} for i, j in idx[:8]]}
'''

PSD = COMMON + r"""
cc = make(payload)
cc._calc_linear_matrices()
k0 = np.asarray(cc.k0.todense())
w = np.linalg.eigvalsh((k0 + k0.T)/2)
out = {'min_eig': float(w[0]), 'max_eig': float(w[-1]), 'n_negative': int((w < -1e-9*abs(w[-1])).sum()), 'asym': float(abs(k0 - k0.T).max())}
"""

HESSIAN_ALL = COMMON + r"""
payload = dict(payload); payload.setdefault('nx', 1201); payload.setdefault('nt', 64)
cc = make(payload)
for _k in ('ku', 'kv', 'kw', 'kphix', 'kphit'):
    for _e in ('Bot', 'Top'):
        setattr(cc, _k + _e, 0.)      # no elastic edge restraint: k0 is the strain-energy part only
cc._calc_linear_matrices()
k0 = np.asarray(cc.k0.todense())
F = np.asarray(cc.F, dtype=float)
md = get_model(cc.model)
size = cc.get_size()
nx, nt = payload['nx'], payload['nt']
xs1 = np.linspace(0, cc.L, nx); ts1 = np.linspace(0, 2*np.pi, nt, endpoint=False)
X, T = np.meshgrid(xs1, ts1, indexing='ij')
kin = 1 if 'sanders' in cc.model else 0
c0 = np.zeros(1)
E = []
for A in range(size):
    outp = []
    for sg in (1., -1.):
        c = np.zeros(size); c[A] = sg*1e-6
        es = md['commons'].fstrain(c, cc.sina, cc.cosa, cc.tLArad, X.ravel().copy(), T.ravel().copy(), cc.r2, cc.L,
                                   cc.m1, cc.m2, cc.n2, c0, 0, 0, 2, kin)
        outp.append(np.asarray(es).reshape(-1, md['e_num']))
    E.append((outp[0] - outp[1])/2e-6)
r = (cc.r2 + X*cc.sina).ravel()
w = np.ones(nx); w[1:-1:2] = 4; w[2:-1:2] = 2; w *= (xs1[1]-xs1[0])/3.
W = (w[:, None]*np.ones(nt)[None, :]*(2*np.pi/nt)).ravel()*r
bad = []
scale = abs(k0).max()
for A in range(size):
    if A == 2: continue
    FA = E[A] @ F
    for B in range(A, size):
        if B == 2: continue
        H = float(np.sum(np.sum(FA*E[B], axis=1)*W))
        if abs(H - k0[A, B]) > 2e-3*max(abs(H), abs(k0[A, B])) + 1e-9*scale:
            bad.append({'A': A, 'B': B, 'k0': float(k0[A, B]), 'energy_hessian': H})
out = {'size': size, 'n_mismatch': len(bad), 'first': bad[:8]}
"""

FEXT = COMMON + r'''
cc = make(payload)
cc.pdC = payload.get('pdC', False); cc.pdT = payload.get('pdT', False)
cc.Fc = None
cc.T = payload.get('T', 0.); cc.P = payload.get('P', 0.)
cc.uTM = payload.get('uTM', 0.); cc.thetaTdeg = payload.get('thetaTdeg', 0.)
cc._rebuild()
if payload.get('Nxxtop') is not None:
    cc.Nxxtop = np.array(payload['Nxxtop'], dtype=float)
for f in payload.get('forces', []):
    cc.add_force(*f)
fext = np.asarray(cc.calc_fext(inc=1., silent=True)).ravel()
md = get_model(cc.model)
size = cc.get_size()
dofs = md['dofs']
g = np.zeros((dofs, size))
def G(x, t):
    md['commons'].fg(g, cc.m1, cc.m2, cc.n2, cc.r2, x, t, cc.L, cc.cosa, cc.tLArad)
    return g.copy()
nt = 720
ts = np.linspace(0, 2*np.pi, nt, endpoint=False)
spec = np.zeros(size)
Nx = np.asarray(cc.Nxxtop, dtype=float)
for t in ts:
    g0 = G(0., t)
    nxx = Nx[0] + sum(Nx[1+2*(j-1)]*np.sin(j*t) + Nx[2+2*(j-1)]*np.cos(j*t) for j in range(1, cc.n2+1))
    if not cc.pdC:
        spec += nxx*g0[0]*cc.r2*(2*np.pi/nt)
    if not cc.pdT:
        spec += cc.T/(2*np.pi*cc.r2**2)*g0[1]*cc.r2*(2*np.pi/nt)
if cc.P != 0:
    nx = 401
    xs = np.linspace(0, cc.L, nx); w = np.ones(nx); w[1:-1:2] = 4; w[2:-1:2] = 2; w *= (xs[1]-xs[0])/3.
    for t in ts[::8]:
        for x, wx in zip(xs, w):
            spec += cc.P*G(x, t)[2]*(cc.r2 + x*cc.sina)*wx*(2*np.pi/(nt/8))
for (x, thetadeg, fx, ft, fz) in payload.get('forces', []):
    gg = G(x, np.deg2rad(thetadeg))
    spec += fx*gg[0] + ft*gg[1] + fz*gg[2]
free = [k for k in range(size) if k not in cc.excluded_dofs]
spec_u = spec[free]
if cc.pdC:
    spec_u = spec_u - cc.uTM*np.asarray(cc.k0uk)[:, 0]
if cc.pdT:
    spec_u = spec_u - cc.thetaTrad*np.asarray(cc.k0uk)[:, 1]
scale = max(abs(spec_u).max(), abs(fext).max(), 1e-30)
bad = [{'amplitude': int(free[k]), 'calc_fext': float(fext[k]), 'virtual_work': float(spec_u[k])} for k in range(len(free))
       if abs(fext[k] - spec_u[k]) > 1e-6*scale]
out = {'n_mismatch': len(bad), 'first': bad[:8], 'size': size}
'''

TANGENT = COMMON + r'''
cc = make(payload)
cc.pdC = payload.get('pdC', True); cc.pdT = True
cc.nx, cc.nt = payload.get('nx', 40), payload.get('nt', 48)
cc.ni_num_cores = payload.get('cores', 2); cc.ni_method = payload.get('method', 'trapz2d')
cc.uTM = payload.get('uTM', 0.); cc.thetaTdeg = payload.get('thetaTdeg', 0.)
inc = payload.get('inc', 1.)
cc._rebuild()
n = cc.get_size() - len(cc.excluded_dofs)
rs = np.random.RandomState(payload.get('seed', 0))
c = rs.uniform(-1, 1, size=n)*payload.get('amp', 0.2)
kT = np.asarray(cc.calc_kT(c, inc=inc, silent=True).todense())
f0 = np.asarray(cc.calc_fint(c, inc=inc, return_u=True, silent=True)).ravel()
h = payload.get('h', 1e-3)
J = np.zeros((n, n))
for j in range(n):
    e = np.zeros(n); e[j] = h
    fp = np.asarray(cc.calc_fint(c + e, inc=inc, return_u=True, silent=True)).ravel()
    fm = np.asarray(cc.calc_fint(c - e, inc=inc, return_u=True, silent=True)).ravel()
    J[:, j] = (fp - fm)/(2*h)
k0uu = np.asarray(cc.k0uu.todense())
scale = abs(J - k0uu).max()      # size of the state-dependent part
d = abs(kT - J)
idx = np.argwhere(d > 1e-4*scale + 1e-13*abs(J).max()/h)
zero = np.asarray(cc.calc_fint(np.zeros(n), inc=inc, return_u=True, silent=True)).ravel()
out = {'n': n, 'scale': float(scale), 'max_abs_difference': float(d.max()), 'asymmetry_of_kT': float(abs(kT - kT.T).max()),
       'n_entries_off': int(len(idx)), 'first': [{'row': int(i), 'col': int(j), 'kT': float(kT[i, j]), 'dfint_dc': float(J[i, j])} for i, j in idx[:6]],
       'fint_at_zero_max': float(abs(zero).max())}
'''

LINMAT = COMMON + r'''
from compmech.sparse import make_symmetric
import compmech.conecyl.modelDB as modelDB
bad = []
def dense(m):
    return np.asarray(make_symmetric(m).todense())
for model in payload['models']:
  for alphadeg in (0., 30.):
    pay = dict(payload); pay['model'] = model; pay['alphadeg'] = alphadeg
    if model.startswith('iso_'):
        pay['iso'] = [71e3, 0.33, 2.]
    ref = {}
    for clc in (None, 1):
        cc = make(pay); cc.Fc = 1000.; cc.P = 0.05; cc.T = 2e4; cc.s = 11
        cc._calc_linear_matrices(combined_load_case=clc)
        lin = modelDB.db[model]['linear']; gl = modelDB.db[model[4:] if model.startswith('iso_') else model]['linear']
        Fc = cc.Nxxtop[0]*(2*np.pi*cc.r2*cc.cosa)
        mat = [cc.E11, cc.nu, cc.h] if model.startswith('iso_') else [cc.F]
        if alphadeg == 0.:
            k0 = lin.fk0_cyl(cc.r2, cc.L, *mat, cc.m1, cc.m2, cc.n2)
            kg = lambda a, b, c: gl.fkG0_cyl(a, b, c, cc.r2, cc.L, cc.m1, cc.m2, cc.n2)
        else:
            k0 = lin.fk0(cc.alpharad, cc.r2, cc.L, *mat, cc.m1, cc.m2, cc.n2, cc.s)
            kg = lambda a, b, c: gl.fkG0(a, b, c, cc.r2, cc.alpharad, cc.L, cc.m1, cc.m2, cc.n2, cc.s)
        got = {}
        if clc is None:
            got['kG0'] = cc.kG0; want = {'kG0': kg(Fc, cc.P, cc.T)}
        else:
            got = {'kG0_Fc': cc.kG0_Fc, 'kG0_P': cc.kG0_P, 'kG0_T': cc.kG0_T}
            want = {'kG0_Fc': kg(Fc, 0, 0), 'kG0_P': kg(0, cc.P, 0), 'kG0_T': kg(0, 0, cc.T)}
        for k in got:
            g, w = np.asarray(got[k].todense()), dense(want[k])
            if abs(g - w).max() > 1e-9*max(abs(w).max(), 1e-30):
                bad.append({'model': model, 'alphadeg': alphadeg, 'combined_load_case': clc, 'matrix': k, 'max_abs_difference': float(abs(g - w).max())})
        if abs(np.asarray(cc.k0.todense()) - np.asarray(cc.k0.todense()).T).max() > 0:
            bad.append({'model': model, 'alphadeg': alphadeg, 'matrix': 'k0', 'not symmetric': True})
# force_orthotropic_laminate: the matrix handed to the kernels has no 16/26 (and 45) entries; same k0 as with that matrix given as F_reuse
from compmech.composite import laminate
for model in payload['models']:
    if model.startswith('iso_'):
        continue
    pay = dict(payload); pay['model'] = model; pay['alphadeg'] = 30.
    cc = make(pay); cc.s = 11; cc.force_orthotropic_laminate = True
    cc._calc_linear_matrices()
    lam = laminate.read_stack(pay['stack'], plyt=pay['plyt'], laminaprop=tuple(pay['laminaprop']))
    Fz = np.array(lam.ABDE if 'fsdt' in model else lam.ABD, dtype=float)
    if 'fsdt' in model:
        Fz[6:, 6:] *= cc.K
    for (i, j) in [(0, 2), (1, 2), (0, 5), (1, 5), (3, 2), (4, 2), (3, 5), (4, 5)] + ([(6, 7)] if Fz.shape[0] == 8 else []):
        Fz[i, j] = Fz[j, i] = 0.
    if abs(np.asarray(cc.F) - Fz).max() > 1e-12*abs(Fz).max():
        bad.append({'model': model, 'force_orthotropic_laminate': True, 'matrix': 'F', 'max_abs_difference': float(abs(np.asarray(cc.F) - Fz).max())})
    c2 = make(pay); c2.s = 11; c2.F_reuse = Fz.copy()
    c2._calc_linear_matrices()
    g, w = np.asarray(cc.k0.todense()), np.asarray(c2.k0.todense())
    if abs(g - w).max() > 1e-9*abs(w).max():
        bad.append({'model': model, 'force_orthotropic_laminate': True, 'matrix': 'k0', 'max_abs_difference': float(abs(g - w).max())})
out = {'n_mismatch': len(bad), 'first': bad[:6]}
'''
