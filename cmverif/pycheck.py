"""Comparison of opaque kernel-call terms produced by the Python layer with the
expected ones (argument pass-through obligations)."""
from .poly import P, normal
from .pysym import Opaque, Obj
from .panelctx import vkey, LamMatrix


def describe(v, depth=0):
    if isinstance(v, Opaque):
        if v.kind == 'kernel':
            return '%s.%s(%s)' % (v.f['model'], v.f['fn'], ', '.join('%s=%s' % (k, describe(x)) for k, x in sorted(v.f['args'].items())))
        if v.kind == 'sum':
            return ' + '.join(describe(t) for t in v.f['terms'])
        if v.kind == 'scale':
            return '(%s)*[%s]' % (describe(v.f['k']), describe(v.f['of']))
        if v.kind in ('symmetrized', 'skew-symmetrized'):
            return '%s[%s]' % (v.kind, describe(v.f['of']))
        return '<%s>' % v.kind
    if isinstance(v, P):
        return normal(v).text()
    if isinstance(v, LamMatrix):
        return 'ABD(stack=%s, plyts=%s, offset=%s%s)' % (describe(v.spec.f['stack']), describe(v.spec.f['plyts']), describe(v.spec.f['offset']),
                                                      ', writes=%d' % len(v.writes) if v.writes else '')
    if isinstance(v, (list, tuple)):
        return '[' + ', '.join(describe(x) for x in v) + ']'
    return repr(v)


def view_get(t, obj, attr):
    """attribute ``attr`` that a kernel term read from its object parameter ``obj`` (kernels with a single object parameter record the
    bare attribute name, kernels with several record ``obj.attr``); KeyError if the term has no such record"""
    pv, objs = t.f['panel'], tuple(t.f.get('objs') or ())
    if obj not in objs:
        raise KeyError('%s is not an object parameter of %s %s' % (obj, t.f['fn'], objs))
    return pv[attr if len(objs) == 1 else '%s.%s' % (obj, attr)]


def diff_kernel(actual, fn, model, args, panelvals):
    """list of human-readable differences between an actual kernel term and the expected call"""
    out = []
    if not (isinstance(actual, Opaque) and actual.kind == 'kernel'):
        return ['not a kernel result: %s' % describe(actual)]
    if actual.f['fn'] != fn:
        out.append('kernel %s called, expected %s' % (actual.f['fn'], fn))
    if actual.f['model'] != model:
        out.append('model %s used, expected %s' % (actual.f['model'], model))
    for k, w in args.items():
        if k not in actual.f['args']:
            out.append('argument %s not passed' % k)
        elif vkey(actual.f['args'][k]) != vkey(w):
            out.append('argument %s = %s, expected %s' % (k, describe(actual.f['args'][k]), describe(w)))
    for k in actual.f['args']:
        if k not in args:
            out.append('unexpected argument %s' % k)
    for k, w in panelvals.items():
        if k not in actual.f['panel']:
            continue          # attribute not read by this kernel
        if vkey(actual.f['panel'][k]) != vkey(w):
            out.append('panel.%s seen by the kernel = %s, expected %s' % (k, describe(actual.f['panel'][k]), describe(w)))
    return out


def terms_of(v):
    """(wrapper kinds, list of (scale, kernel term))"""
    wrap = []
    while isinstance(v, Opaque) and v.kind in ('symmetrized', 'skew-symmetrized', 'csr', 'memoryview'):
        wrap.append(v.kind)
        v = v.f['of']
    terms = []

    def walk(x, k):
        if isinstance(x, Opaque) and x.kind == 'sum':
            for t in x.f['terms']:
                walk(t, k)
        elif isinstance(x, Opaque) and x.kind == 'scale':
            walk(x.f['of'], k * x.f['k'] if not isinstance(x.f['k'], Opaque) else ('complex', k))
        else:
            terms.append((k, x))
    walk(v, 1)
    return wrap, terms



def keep_matrix(itp, a, kw):
    """contract of scipy.sparse.csr_matrix / coo_matrix used as a format conversion: the matrix itself.  Anything beyond the plain
    one-argument conversion (dtype=..., shape=..., a (data, (row, col)) triple) is not this contract"""
    from .core import CheckerError
    extra = {k: v for k, v in kw.items() if k != 'copy' and v is not None}
    if len(a) != 1 or extra:
        raise CheckerError('sparse format conversion called with %d positional arguments and %s: conversion of values / shape is not modelled'
                           % (len(a), sorted(extra)))
    return a[0]
