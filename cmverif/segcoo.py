"""Generic-entry model of COO index/value arrays for compmech/sparse.py:make_symmetric / make_skew_symmetric.

Those functions keep the stored entries on or above the diagonal, append a second block of the same length (``x*0``) and write
the mirror image of every strictly-upper entry into the partner position ``k + pos`` of the second block.  A vector is modelled
by its SEGMENTS; each segment is represented by one generic element, and the generic elements of the segments of one vector
are partners (index k of segment 0 <-> index k + pos of segment 1).  Every stored entry of the input is an instance of the
generic element, and the dense matrix is the sum over the stored entries, so what is proved for the generic entry holds for
every COO input (any number of entries, duplicates, any order).

Trusted numpy semantics: boolean-mask selection a[mask] keeps order and is applied alike to the three arrays; concatenate;
np.where(mask)[0] lists the indices where the mask holds; fancy assignment a[idx] = b[idx2] is element-wise over distinct indices.
"""
from .poly import P, normal
from .core import CheckerError
from . import pysym
from .pysym import Cond, compare, SymRaise


def _P(x):
    return x if isinstance(x, P) else P.const(x)


class SegVec(object):
    """segs: list of generic elements (P); alive: the generic stored entry is still present; length of each segment: ``seglen``"""
    def __init__(self, segs, family, alive=True):
        self.segs = [(_P(s) if s is not None else None) for s in segs]
        self.family = family          # arrays derived from the same matrix by the same selections share the family object
        self.alive = alive

    # arithmetic with scalars, element-wise
    def _map(self, f):
        return SegVec([f(s) for s in self.segs], self.family, self.alive)

    def __mul__(self, o):
        o = pysym._unwrap0(o)
        return self._map(lambda s: s * o)

    __rmul__ = __mul__

    def __neg__(self):
        return self._map(lambda s: -s)

    def sym_compare(self, interp, op, other):
        if isinstance(other, SegVec):
            if other.family is not self.family or len(other.segs) != len(self.segs):
                raise CheckerError('comparison of arrays of different layout')
            return SegMask([compare(op, a, b) for a, b in zip(self.segs, other.segs)], self.family)
        other = pysym._unwrap0(other)
        return SegMask([compare(op, a, _P(other)) for a in self.segs], self.family)

    def sym_getattr(self, interp, name):
        if name == 'shape':
            return (self.family.length(len(self.segs)),)
        raise CheckerError('attribute %s of an index array' % name)

    def sym_load(self, interp, k, node):
        if isinstance(k, SegMask):
            # boolean selection: the generic entry is kept iff the mask holds for it
            if len(self.segs) != 1 or k.family is not self.family:
                raise CheckerError('line %d: mask selection on a concatenated array' % node.lineno)
            keep = self.family.decide(interp, ('mask', id(k)), k.conds[0])
            return SegVec(self.segs, self.family.selected(id(k)), self.alive and keep)
        if isinstance(k, IdxSel):
            if k.family is not self.family or k.shift:
                raise CheckerError('line %d: read through a shifted / foreign index list' % node.lineno)
            return SelVals([s for s in self.segs], k)
        raise CheckerError('line %d: index array read with %r' % (node.lineno, k))

    def sym_store(self, interp, k, v, node):
        if not isinstance(k, IdxSel) or k.family is not self.family:
            raise CheckerError('line %d: index array store with %r' % (node.lineno, k))
        if not isinstance(v, SelVals) or v.sel.base is not k.base:
            raise CheckerError('line %d: stored values are not taken with the same index list' % node.lineno)
        nseg = len(self.segs)
        new = list(self.segs)
        for s, cond in enumerate(k.base.conds):
            hit = self.family.decide(interp, ('sel', id(k.base), s), cond)
            if not hit:
                continue
            t = s + k.shift
            if t >= nseg or t < 0:
                raise SymRaise('IndexError', ('index out of bounds: segment %d shifted by %d blocks' % (s, k.shift),), node)
            val = v.vals[s]
            new[t] = -val if v.negated else val
        self.segs = new


class SelVals(object):
    def __init__(self, vals, sel, negated=False):
        self.vals, self.sel, self.negated = vals, sel, negated

    def __neg__(self):
        return SelVals(self.vals, self.sel, not self.negated)


class SegMask(object):
    shape = (None,)

    def __init__(self, conds, family):
        self.conds, self.family = conds, family


class IdxBase(object):
    def __init__(self, conds):
        self.conds = conds


class IdxSel(object):
    """np.where(mask)[0], possibly shifted by whole blocks (``+ pos``)"""
    def __init__(self, base, family, shift=0):
        self.base, self.family, self.shift = base, family, shift

    @property
    def sel(self):
        return self

    def __add__(self, o):
        o = _P(pysym._unwrap0(o))
        if normal(o - self.family.pos).is_zero():
            return IdxSel(self.base, self.family, self.shift + 1)
        raise CheckerError('index list shifted by %s (only whole blocks of length pos are modelled)' % o)

    __radd__ = __add__


class Family(object):
    """layout shared by row / col / data of one matrix through the same selections"""
    def __init__(self, n_entries):
        self.n = n_entries
        self.pos = None
        self.children = {}
        self.decisions = {}

    def selected(self, key):
        if key not in self.children:
            f = Family(pysym.integer('pos'))
            f.pos = f.n
            f.decisions = self.decisions
            self.children[key] = f
        return self.children[key]

    def length(self, nseg):
        return self.n * nseg

    def decide(self, interp, key, cond):
        # the three arrays see the same outcome: once decided, the condition is part of the path and truth() answers by implication
        if isinstance(cond, bool):
            return cond
        return interp.truth(cond)


class SegCOO(object):
    def __init__(self, row, col, data, shape):
        self.row, self.col, self.data, self.shape = row, col, data, shape

    def sym_getattr(self, interp, name):
        if name in ('row', 'col', 'data', 'shape'):
            return getattr(self, name)
        if name == 'dtype':
            return 'float64'
        raise CheckerError('attribute %s of a COO matrix' % name)


def new_input(n):
    fam = Family(pysym.integer('nnz'))
    R, C, V = pysym.integer('R'), pysym.integer('C'), pysym.real('V')
    return SegCOO(SegVec([R], fam), SegVec([C], fam), SegVec([V], fam), (n, n)), (R, C, V)


def install(it):
    class COOT(object):
        def sym_isinstance(self, interp, o):
            return isinstance(o, SegCOO)

        def sym_call(self, interp, args, kwargs):
            x = args[0]
            if isinstance(x, SegCOO):
                return x
            if isinstance(x, tuple) and len(x) == 2 and isinstance(x[1], tuple):
                v, (r, c) = x
                return SegCOO(r, c, v, kwargs.get('shape'))
            raise CheckerError('coo_matrix(%r)' % (x,))

        def __call__(self, *a, **k):
            return self.sym_call(None, list(a), k)
    coo = COOT()
    it.contracts['scipy.sparse.coo_matrix'] = lambda itp, a, kw: coo.sym_call(itp, a, kw)
    it.shims['scipy.sparse.coo_matrix'] = coo

    def concatenate(parts):
        parts = list(parts)
        if not all(isinstance(p, SegVec) for p in parts) or len({id(p.family) for p in parts}) != 1:
            raise CheckerError('np.concatenate of arrays of different layout')
        segs = []
        for p in parts:
            segs += p.segs
        return SegVec(segs, parts[0].family, all(p.alive for p in parts))

    def where(m):
        if isinstance(m, SegMask):
            return (IdxSel(IdxBase(m.conds), m.family),)
        raise CheckerError('np.where on %r' % (m,))
    def conj(x):
        # the stored values may be complex (calc_cA): conj is an uninterpreted map, conj(V) == V only for real V
        def cj(p):
            p = normal(_P(p))
            if p.is_const():
                return p
            return P.atom('conj(%s)' % p.text())
        if isinstance(x, SegVec):
            return x._map(cj)
        if isinstance(x, SelVals):
            return SelVals([cj(v) for v in x.vals], x.sel, x.negated)
        x0 = pysym._unwrap0(x)
        if isinstance(x0, (P, int, float)):
            return cj(x0)
        raise CheckerError('np.conj(%r)' % (x,))
    it.np.concatenate = concatenate
    it.np.where = where
    it.np.conj = conj
    it.np.conjugate = conj
    return coo
