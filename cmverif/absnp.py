"""Abstract numpy arrays with symbolic shapes (for the eigen-solver wrappers, C05/C06/C07).

An ``AArr`` knows its shape (tuple of ints / integer polynomials), an element kind and a structural term saying
where its contents come from.  Every operation that numpy would reject for incompatible shapes forks the path on
the shape condition, so "raises ValueError: shape mismatch" shows up as a feasible raising path (a violation of
exception freedom) together with the z3 model (sizes) that triggers it.
"""
import z3

from .poly import P, normal
from .core import CheckerError
from . import pysym
from .pysym import Cond, SymRaise, integer, to_z3, compare

_ctr = [0]


def fresh_int(base, lo=None, hi=None, interp=None):
    _ctr[0] += 1
    a = integer('%s~%d' % (base, _ctr[0]))
    if interp is not None:
        if lo is not None:
            interp.path.conds.append(compare('>=', a, lo))
        if hi is not None:
            interp.path.conds.append(compare('<=', a, hi))
    return a


def dim_eq(a, b):
    return compare('==', a, b)


def T(x):
    if isinstance(x, P):
        return normal(x).text()
    if isinstance(x, AArr):
        return x.term
    if isinstance(x, tuple):
        return tuple(T(y) for y in x)
    return x


class AArr(object):
    interp = None       # set by install()

    def __init__(self, shape, term, kind='float', count=None):
        self.shape = tuple(shape)
        self.term = term
        self.kind = kind
        self.count = count      # for boolean masks: number of True entries (integer symbol)

    def __repr__(self):
        return '<AArr %s %s %r>' % (self.kind, tuple(T(s) for s in self.shape), self.term if len(str(self.term)) < 80 else str(self.term)[:80])

    @property
    def ndim(self):
        return len(self.shape)

    # ---- attributes used by the repo code --------------------------------------------
    def sym_getattr(self, itp, name):
        if name == 'shape':
            return self.shape
        if name == 'ndim':
            return len(self.shape)
        if name == 'dtype':
            return ('dtype', self.kind)
        if name in ('real', 'imag'):
            return AArr(self.shape, (name, self.term), 'float')
        if name == 'T':
            return AArr(tuple(reversed(self.shape)), ('T', self.term), self.kind)
        if name == 'toarray' or name == 'tocsr' or name == 'tocoo' or name == 'copy' or name == 'todense':
            return lambda *a, **k: AArr(self.shape, self.term if name != 'copy' else ('copy', self.term), self.kind)
        if name == 'sum':
            def s(axis=None):
                if axis is None:
                    return P.atom('sum(%s)' % (self.term,))
                shp = tuple(d for i, d in enumerate(self.shape) if i != axis)
                return AArr(shp, ('sum', axis, self.term), self.kind)
            return s
        if name == 'flatten' or name == 'ravel':
            def f():
                n = 1
                for d in self.shape:
                    n = n * d
                return AArr((n,), ('flat', self.term), self.kind)
            return f
        if name == 'dot':
            return lambda o: self._matmul(o)
        if name == 'nonzero':
            raise CheckerError('nonzero() needs a contract')
        if name == 'max' or name == 'min' or name == 'sum' and False:
            def red(*a, **k):
                axis = k.get('axis', a[0] if a else None)
                if axis is None:
                    return P.atom('%s(%s)' % (name, self.term))
                if not isinstance(axis, int) or not (-len(self.shape) <= axis < len(self.shape)):
                    raise CheckerError('%s(axis=%r) needs a contract' % (name, axis))
                axis = axis % len(self.shape)
                shp = self.shape[:axis] + self.shape[axis + 1:]
                if not shp:
                    return P.atom('%s(%s)' % (name, self.term))
                return AArr(shp, (name, axis, self.term), self.kind)
            return red
        if name == 'conj':
            return lambda: AArr(self.shape, ('conj', self.term), self.kind)
        if name == 'data':
            return AArr((fresh_int('nnz', 0, None, itp),), ('data', self.term), self.kind)
        raise CheckerError('array attribute %s needs a contract' % name)

    def sym_len(self, itp):
        return self.shape[0]

    def sym_iter(self, itp):
        # iteration over the first axis: one generic element (used only for printing loops)
        if len(self.shape) == 1:
            return [P.atom('elem(%s)' % (self.term,))]
        return [AArr(self.shape[1:], ('row', self.term), self.kind)]

    # ---- arithmetic --------------------------------------------------------------------
    def _scal(self, op, o, swapped=False):
        if isinstance(o, AArr):
            r = self._elementwise(op, o, swapped)
            # x + 0 = x, 0 + x = x, x - 0 = x  (the only algebra the wrappers rely on)
            if op == '+' and o.term == ('zeros',):
                return AArr(self.shape, self.term, self.kind)
            if op == '+' and self.term == ('zeros',):
                return AArr(o.shape, o.term, o.kind)
            if op == '-' and not swapped and o.term == ('zeros',):
                return AArr(self.shape, self.term, self.kind)
            return r
        if op == '*' and isinstance(o, (int, P)) and (o == 0 or (isinstance(o, P) and o.is_zero())):
            return AArr(self.shape, ('zeros',), self.kind)
        if isinstance(o, (int, P)) or (hasattr(o, 'kind') and getattr(o, 'kind', None) == 'complex'):
            kind = 'complex' if (hasattr(o, 'kind') and o.kind == 'complex') else self.kind
            return AArr(self.shape, (op, 'swap' if swapped else 'std', self.term, T(o) if not hasattr(o, 'kind') else 'j'), kind)
        return NotImplemented

    def _elementwise(self, op, o, swapped):
        itp = AArr.interp
        if len(self.shape) != len(o.shape):
            raise CheckerError('broadcast between ranks %d and %d' % (len(self.shape), len(o.shape)))
        shp = []
        for a, b in zip(self.shape, o.shape):
            # numpy broadcasting: a dimension of length one is stretched
            if isinstance(b, int) and b == 1:
                shp.append(a)
                continue
            if isinstance(a, int) and a == 1:
                shp.append(b)
                continue
            c = dim_eq(a, b)
            if not itp.truth(c):
                raise SymRaise('ValueError', ('operands could not be broadcast together with shapes %s %s' % (T(self.shape), T(o.shape)),))
            shp.append(a)
        return AArr(tuple(shp), (op, T(o) if swapped else self.term, self.term if swapped else T(o)), 'complex' if 'complex' in (self.kind, o.kind) else self.kind)

    def _matmul(self, o):
        itp = AArr.interp
        if isinstance(o, AArr):
            c = dim_eq(self.shape[-1], o.shape[0])
            if not itp.truth(c):
                raise SymRaise('ValueError', ('matmul: dimension mismatch %s %s' % (T(self.shape), T(o.shape)),))
            return AArr(self.shape[:-1] + o.shape[1:], ('matmul', self.term, o.term), self.kind)
        raise CheckerError('dot with %r' % (o,))

    def __add__(self, o):
        return self._scal('+', o)

    def __radd__(self, o):
        return self._scal('+', o, True)

    def __sub__(self, o):
        return self._scal('-', o)

    def __rsub__(self, o):
        return self._scal('-', o, True)

    def __mul__(self, o):
        return self._scal('*', o)

    def __rmul__(self, o):
        return self._scal('*', o, True)

    def __truediv__(self, o):
        return self._scal('/', o)

    def __rtruediv__(self, o):
        return self._scal('/', o, True)

    def __neg__(self):
        return AArr(self.shape, ('neg', self.term), self.kind)

    def __matmul__(self, o):
        return self._matmul(o)

    def sym_invert(self, itp):
        if self.kind != 'bool':
            raise CheckerError('~ on a non-boolean array')
        n = 1
        for d in self.shape:
            n = n * d
        return AArr(self.shape, ('not', self.term), 'bool', count=n - self.count)

    def sym_compare(self, itp, op, other):
        cnt = fresh_int('cnt', 0, None, itp)
        n = 1
        for d in self.shape:
            n = n * d
        itp.path.conds.append(compare('<=', cnt, n))
        return AArr(self.shape, ('cmp', op, self.term, T(other)), 'bool', count=cnt)

    def _boolop(self, name, other):
        if not (isinstance(other, AArr) and self.kind == 'bool' and other.kind == 'bool' and len(self.shape) == len(other.shape)):
            return NotImplemented
        itp = AArr.interp
        cnt = fresh_int('cnt', 0, None, itp)
        n = 1
        for d in self.shape:
            n = n * d
        itp.path.conds.append(compare('<=', cnt, n))
        if name == 'and' and self.count is not None:
            itp.path.conds.append(compare('<=', cnt, self.count))
        return AArr(self.shape, (name, self.term, other.term), 'bool', count=cnt)

    def __and__(self, other):
        return self._boolop('and', other)

    def __or__(self, other):
        return self._boolop('or', other)

    # ---- indexing ------------------------------------------------------------------------
    def _axis_len(self, itp, k, n):
        """length and term of indexing one axis of length n with k"""
        if isinstance(k, slice):
            if k == slice(None):
                return n, 'all'
            lo, hi, st = k.start, k.stop, k.step
            if st is None or st == 1:
                if lo is None and hi is not None:
                    # a[:hi] -> min(hi, n) for hi >= 0
                    hi_p = hi if isinstance(hi, P) else P.const(hi)
                    L = fresh_int('len', 0, None, itp)
                    Lz, hz, nz = to_z3(L), to_z3(hi_p), to_z3(n)
                    itp.path.conds.append(Cond('z3', z3.If(hz < 0, z3.BoolVal(True), z3.If(hz <= nz, Lz == hz, Lz == nz))))
                    return L, ('prefix', T(hi_p))
                if lo is not None and hi is None:
                    lo_p = lo if isinstance(lo, P) else P.const(lo)
                    L = fresh_int('len', 0, None, itp)
                    Lz, lz, nz = to_z3(L), to_z3(lo_p), to_z3(n)
                    itp.path.conds.append(Cond('z3', z3.If(lz >= nz, Lz == 0, Lz == nz - lz)))
                    return L, ('suffix', T(lo_p))
            if hi is None and isinstance(st, int) and st > 0 and isinstance(lo, int) and lo >= 0:
                L = fresh_int('len', 0, None, itp)
                Lz, nz = to_z3(L), to_z3(n)
                # L = ceil((n - lo)/st) for n > lo else 0
                itp.path.conds.append(Cond('z3', z3.If(nz <= lo, Lz == 0, z3.And(st * Lz >= nz - lo, st * (Lz - 1) < nz - lo))))
                return L, ('stride', lo, st)
            raise CheckerError('unsupported slice %r' % (k,))
        if isinstance(k, AArr):
            if k.kind == 'bool':
                c = dim_eq(k.shape[0], n)
                if not itp.truth(c):
                    raise SymRaise('IndexError', ('boolean index did not match indexed array: %s vs %s' % (T(k.shape[0]), T(n)),))
                return k.count, ('mask', k.term)
            if k.kind == 'int':
                # index vector: entries must be < n  (obligation by provenance: recorded, checked by the contract author)
                itp.path.log.append(('index-vector', k.term, T(n)))
                return k.shape[0], ('take', k.term)
        if isinstance(k, (int, P)):
            return None, ('at', T(k))
        raise CheckerError('unsupported index %r' % (k,))

    def sym_load(self, itp, k, node):
        ks = k if isinstance(k, tuple) else (k,)
        if any(kk is None for kk in ks):
            # numpy.newaxis: a[:, None], a[None, :] ... (the other entries must be full slices)
            if not all(kk is None or kk == slice(None) for kk in ks if not isinstance(kk, (P, AArr))) or any(isinstance(kk, (P, AArr)) for kk in ks):
                raise CheckerError('line %d: newaxis mixed with other indices needs a contract' % getattr(node, 'lineno', 0))
            shp, ax = [], 0
            for kk in ks:
                if kk is None:
                    shp.append(1)
                else:
                    if ax >= len(self.shape):
                        raise SymRaise('IndexError', ('too many indices',), node)
                    shp.append(self.shape[ax])
                    ax += 1
            shp += list(self.shape[ax:])
            return AArr(tuple(shp), ('newaxis', tuple(i for i, kk in enumerate(ks) if kk is None), self.term), self.kind)
        if len(ks) > len(self.shape):
            raise SymRaise('IndexError', ('too many indices',), node)
        shp, terms = [], []
        for ax, kk in enumerate(ks):
            L, t = self._axis_len(itp, kk, self.shape[ax])
            terms.append(t)
            if L is not None:
                shp.append(L)
        shp += list(self.shape[len(ks):])
        if all(t == 'all' for t in terms):
            return self
        if not shp:
            return P.atom('elem(%s,%s)' % (self.term, terms))
        return AArr(tuple(shp), ('index', self.term, tuple(terms)), self.kind)

    def sym_store(self, itp, k, v, node):
        ks = k if isinstance(k, tuple) else (k,)
        shp, terms = [], []
        for ax, kk in enumerate(ks):
            L, t = self._axis_len(itp, kk, self.shape[ax])
            terms.append(t)
            if L is not None:
                shp.append(L)
        shp += list(self.shape[len(ks):])
        if isinstance(v, AArr):
            vs = list(v.shape)
            if len(vs) > len(shp):
                raise SymRaise('ValueError', ('could not broadcast input array from shape %s into shape %s' % (T(tuple(vs)), T(tuple(shp))),), node)
            vs = [1] * (len(shp) - len(vs)) + vs
            for a, b in zip(shp, vs):
                if isinstance(b, int) and b == 1:
                    continue
                c = dim_eq(a, b)
                if not itp.truth(c):
                    raise SymRaise('ValueError', ('shape mismatch: value array of shape %s could not be broadcast to indexing result of shape %s'
                                                  % (T(v.shape), T(tuple(shp))),), node)
        self.term = ('store', self.term, tuple(terms), T(v))
        itp.path.log.append(('array-store', tuple(terms), T(v)))


def install(itp):
    """numpy shims that produce / consume abstract arrays"""
    AArr.interp = itp
    np_ = itp.np
    old_zeros = np_.zeros

    def zeros(shape, dtype=None):
        shp = shape if isinstance(shape, (tuple, list)) else (shape,)
        shp = tuple(pysym._toint(s) for s in shp)
        if any(isinstance(s, P) for s in shp):
            for s in shp:
                if isinstance(s, P):
                    c = compare('>=', s, 0)
                    if not itp.truth(c):
                        raise SymRaise('ValueError', ('negative dimensions are not allowed',))
            return AArr(shp, ('zeros',), 'float')
        return old_zeros(shape, dtype)
    np_.zeros = zeros
    old_empty = getattr(np_, 'empty', None)

    def empty(shape, dtype=None):
        # np.empty: the content is unspecified -- a fresh uninterpreted array, equal to nothing else
        shp = shape if isinstance(shape, (tuple, list)) else (shape,)
        shp = tuple(pysym._toint(s) for s in shp)
        if any(isinstance(s, P) for s in shp):
            for s in shp:
                if isinstance(s, P) and not itp.truth(compare('>=', s, 0)):
                    raise SymRaise('ValueError', ('negative dimensions are not allowed',))
            return AArr(shp, ('uninitialised-memory', itp.newname('empty')), 'float')
        if old_empty is None:
            raise CheckerError('np.empty of a concrete shape is not modelled here')
        return old_empty(shape, dtype)
    np_.empty = empty
    np_.zeros_like = lambda a: AArr(a.shape, ('zeros',), a.kind) if isinstance(a, AArr) else old_zeros(a.shape)
    np_.identity = lambda n: AArr((n, n), ('identity',), 'float')
    np_.arange = lambda n: AArr((n,), ('arange',), 'int')
    old_sqrt = np_.sqrt
    np_.sqrt = lambda x: AArr(x.shape, ('sqrt', x.term), 'complex' if x.kind == 'complex' else x.kind) if isinstance(x, AArr) else old_sqrt(x)
    np_.round = lambda x, n=0: AArr(x.shape, ('round', n, x.term), x.kind)

    def lexsort(keys):
        ks = list(keys)
        n = ks[0].shape[0]
        for k in ks[1:]:
            if not itp.truth(dim_eq(k.shape[0], n)):
                raise SymRaise('ValueError', ('all keys need to be the same shape',))
        return AArr((n,), ('perm', tuple(k.term for k in ks)), 'int')
    np_.lexsort = lexsort

    def column_stack(arrs):
        arrs = list(arrs)
        n = arrs[0].shape[0]
        cols = 0
        for a in arrs:
            if not itp.truth(dim_eq(a.shape[0], n)):
                raise SymRaise('ValueError', ('all the input array dimensions except for the concatenation axis must match exactly',))
            cols = cols + (a.shape[1] if len(a.shape) > 1 else 1)
        return AArr((n, cols), ('column_stack', tuple(a.term for a in arrs)), arrs[0].kind)
    np_.column_stack = column_stack

    def row_stack(arrs):
        arrs = list(arrs)
        c = arrs[0].shape[1]
        rows = 0
        for a in arrs:
            if not itp.truth(dim_eq(a.shape[1], c)):
                raise SymRaise('ValueError', ('all the input array dimensions except for the concatenation axis must match exactly',))
            rows = rows + a.shape[0]
        return AArr((rows, c), ('row_stack', tuple(a.term for a in arrs)), arrs[0].kind)
    np_.row_stack = row_stack
    np_.vstack = row_stack
    old_any = np_.any
    np_.any = lambda x: False if isinstance(x, AArr) else old_any(x)
    np_.isnan = lambda x: x if isinstance(x, AArr) else False
    np_.isinf = lambda x: x if isinstance(x, AArr) else False
    old_asc = np_.ascontiguousarray
    np_.ascontiguousarray = lambda x, dtype=None: x if isinstance(x, AArr) else old_asc(x, dtype)
    old_isclose = np_.isclose
    def isclose(x, y, **kw):
        if isinstance(x, AArr):
            cnt = fresh_int('cnt', 0, None, itp)
            n = 1
            for d in x.shape:
                n = n * d
            itp.path.conds.append(compare('<=', cnt, n))
            return AArr(x.shape, ('isclose', x.term, T(y)), 'bool', count=cnt)
        return old_isclose(x, y, **kw)
    np_.isclose = isclose
    np_.unique = lambda x: AArr((fresh_int('nuniq', 0, None, itp),), ('unique', x.term), x.kind)
    old_abs = np_.abs
    np_.abs = lambda x: AArr(x.shape, ('abs', x.term), 'float') if isinstance(x, AArr) else old_abs(x)
