"""Arrays as index functions, for wrappers that pad, reshape, hand rows to a point kernel and flatten again
(fuvw / fstrain of the field modules).  Every array is (shape, element function); shapes and indices are polynomials.

An element read takes a list of z3 assumptions (about the generic index being read); a piecewise array (hstack) decides its
branch by implication from the interpreter facts, the path conditions and those assumptions -- an undecidable branch is a
CheckerError (the check is then undecided, never a violation)."""
import z3

from .poly import P, normal
from .core import CheckerError
from . import pysym
from .pysym import to_z3, Cond, SymRaise


def _P(x):
    return x if isinstance(x, P) else P.const(x)


class Ctx(object):
    def __init__(self, interp, assume=(), decomp=()):
        self.interp = interp
        self.assume = list(assume)
        self.decomp = list(decomp)      # (flat index, row length, row, column)
        self.time = 0.0

    def implied(self, cond):
        import time
        s = z3.Solver()
        s.set('timeout', 10000)
        for f in self.interp.facts:
            s.add(f)
        if self.interp.path is not None:
            for c in self.interp.path.conds:
                s.add(pysym.cond_z3(c) if isinstance(c, Cond) else c)
        for a in self.assume:
            s.add(a)
        s.add(z3.Not(cond))
        t = time.time()
        r = s.check()
        self.time += time.time() - t
        return r == z3.unsat


def path_simplify(interp, p):
    """apply the equalities  atom == 0  of the current path"""
    p = _P(p)
    if interp.path is None:
        return normal(p)
    sub = {}
    for c in interp.path.conds:
        if isinstance(c, Cond) and c.kind == 'cmp' and c.a == '==':
            q = normal(c.b)
            if len(q.t) == 1:
                (m, co), = q.t.items()
                if len(m) == 1 and m[0][1] == 1:
                    sub[m[0][0]] = P.const(0)
    return normal(p.subs(sub)) if sub else normal(p)


class IArr(object):
    def __init__(self, shape, elem, name, interp):
        self.shape = tuple(_P(s) for s in shape)
        self.elem = elem            # (idx tuple of P, Ctx) -> value
        self.name = name
        self.interp = interp
        self.log = []

    # ---- reading ------------------------------------------------------------------------------------------------
    def get(self, idx, ctx):
        return self.elem(tuple(_P(i) for i in idx), ctx)

    def total(self):
        t = P.const(1)
        for s in self.shape:
            t = t * s
        return normal(t)

    def sym_getattr(self, interp, name):
        if name == 'shape':
            return self.shape
        if name == 'reshape':
            return lambda *shape: reshape(interp, self, shape[0] if len(shape) == 1 and isinstance(shape[0], tuple) else shape)
        if name == 'ndim':
            return len(self.shape)
        raise CheckerError('index array %s: attribute %s' % (self.name, name))

    def sym_load(self, interp, k, node):
        if isinstance(k, slice):
            if k.start is not None or k.step is not None or len(self.shape) != 1:
                raise CheckerError('line %d: only a[:n] slices of flat arrays are modelled' % node.lineno)
            n = _P(k.stop)
            base = self
            # numpy truncates silently when n exceeds the length: the slice has n elements only if n <= len
            ctx = Ctx(interp)
            if not ctx.implied(to_z3(normal(base.shape[0] - n)) >= 0):
                interp.path.log.append(('short-slice', base.name, str(n), str(base.shape[0])))
                raise SymRaise('ShortSlice', ('a[:%s] of an array of length %s may be shorter than requested' % (n, base.shape[0]),), node)
            out = IArr((n,), lambda idx, c: base.get(idx, c), base.name + '[:n]', interp)
            out.rowlen = getattr(base, 'rowlen', None)
            return out
        raise CheckerError('line %d: element read of index array %s outside a contract' % (node.lineno, self.name))

    # ---- writing (whole-array maps only) ---------------------------------------------------------------------------
    def _whole_array_index(self, interp, k, node):
        k = k if isinstance(k, tuple) else (k,)
        if len(k) != len(self.shape):
            raise CheckerError('line %d: store with %d indices into %d-d array' % (node.lineno, len(k), len(self.shape)))
        gens = {g.var: g for g in interp.generic}
        seen = set()
        for d, kk in enumerate(k):
            q = normal(_P(kk))
            ats = list(q.atoms())
            if len(ats) != 1 or not normal(q - P.atom(ats[0])).is_zero() or ats[0] not in gens or ats[0] in seen:
                raise SymRaise('NotElementwise', ('store index %s of %s is not a loop variable' % (q, self.name),), node)
            g = gens[ats[0]]
            seen.add(ats[0])
            if not (normal(_P(g.lo)).is_zero() and normal(_P(g.hi) - self.shape[d]).is_zero()):
                raise SymRaise('NotElementwise', ('loop over %s covers [%s, %s), array dimension is %s' % (ats[0], g.lo, g.hi, self.shape[d]),), node)
        return [normal(_P(kk)).atoms().pop() for kk in k]

    def sym_augstore(self, interp, k, op, v, node):
        vars_ = self._whole_array_index(interp, k, node)
        v = _P(v)
        if any(a in vars_ for a in v.atoms()):
            raise CheckerError('line %d: update value depends on the element index' % node.lineno)
        old = self.elem
        if op == 'Mult':
            self.elem = lambda idx, c, old=old, v=v: old(idx, c) * v
        elif op == 'Add':
            self.elem = lambda idx, c, old=old, v=v: old(idx, c) + v
        else:
            raise CheckerError('line %d: augmented store %s' % (node.lineno, op))
        self.log.append(('map', op, str(v)))

    def sym_store(self, interp, k, v, node):
        raise CheckerError('line %d: plain store into index array %s' % (node.lineno, self.name))

    # ---- rows handed to a point kernel ---------------------------------------------------------------------------------
    def set_rows(self, interp, rowvar, fn, node=None):
        """row p of the array becomes  j -> fn(p, j)  for every p (the loop over rowvar covers all rows)"""
        gens = {g.var: g for g in interp.generic}
        if rowvar not in gens:
            raise CheckerError('row writer outside a loop over the rows')
        g = gens[rowvar]
        if not (normal(_P(g.lo)).is_zero() and normal(_P(g.hi) - self.shape[0]).is_zero()):
            raise SymRaise('RowsNotCovered', ('loop over %s covers [%s, %s), the array has %s rows' % (rowvar, g.lo, g.hi, self.shape[0]),), node)
        self.elem = lambda idx, c, fn=fn: fn(idx[0], idx[1], c)
        self.log.append(('rows', rowvar))


def input_vector(name, n, interp):
    def elem(idx, ctx):
        k = normal(idx[0])
        return P.atom('%s[%s]' % (name, k.text()))
    return IArr((n,), elem, name, interp)


def zeros(interp, shape):
    shape = shape if isinstance(shape, tuple) else (shape,)
    return IArr(shape, lambda idx, c: P.const(0), 'zeros', interp)


def hstack(interp, arrs):
    arrs = list(arrs)
    if len(arrs) != 2 or not all(isinstance(a, IArr) and len(a.shape) == 1 for a in arrs):
        raise CheckerError('hstack of other than two flat index arrays')
    a, b = arrs
    n1 = a.shape[0]

    def elem(idx, ctx):
        k = idx[0]
        first = to_z3(normal(k - n1)) < 0
        if ctx.implied(first):
            return a.get((k,), ctx)
        if ctx.implied(z3.Not(first)):
            return b.get((normal(k - n1),), ctx)
        raise CheckerError('hstack: cannot decide which part index %s addresses' % k)
    return IArr((normal(n1 + b.shape[0]),), elem, 'hstack(%s,%s)' % (a.name, b.name), interp)


def exact_quotient(interp, total, d):
    """total / d as a polynomial, or None"""
    total, d = path_simplify(interp, total), path_simplify(interp, d)
    try:
        q = total / d
    except Exception:
        return None
    q = normal(q)
    if any(a.startswith('inv[') for a in q.atoms()) or any(e < 0 for m in q.t for _, e in m):
        return None
    if not normal(q * d - total).is_zero():
        return None
    return q


def reshape(interp, arr, shape):
    shape = tuple(shape)
    if len(shape) != 2 or not isinstance(arr, IArr) or len(arr.shape) != 1:
        raise CheckerError('reshape other than flat -> (rows, -1)')
    rows, cols = shape
    total = arr.total()
    if isinstance(cols, int) and cols == -1 or (isinstance(cols, P) and cols.is_const() and cols.const_value() == -1):
        cols = exact_quotient(interp, total, _P(rows))
        if cols is None:
            raise SymRaise('ValueError', ('cannot reshape array of size %s into shape (%s, -1)' % (total, rows),))
    rows, cols = _P(rows), _P(cols)
    return IArr((rows, cols), lambda idx, c: arr.get((normal(idx[0] * cols + idx[1]),), c), 'reshape(%s)' % arr.name, interp)


def ravel(interp, arr):
    if not isinstance(arr, IArr) or len(arr.shape) != 2:
        raise CheckerError('ravel of other than a 2-d index array')
    cols = arr.shape[1]

    def elem(idx, ctx):
        k = normal(idx[0])
        for (flat, rowlen, p, j) in ctx.decomp:
            if normal(k - flat).is_zero() and normal(_P(rowlen) - cols).is_zero():
                return arr.get((p, j), ctx)
        raise CheckerError('ravel: flat index %s has no row/column decomposition for row length %s' % (k, cols))
    out = IArr((normal(arr.shape[0] * cols),), elem, 'ravel(%s)' % arr.name, interp)
    out.rowlen = cols
    return out


def install(interp):
    np = interp.np
    np.zeros = lambda shape, dtype=None: zeros(interp, shape)
    np.hstack = lambda arrs: hstack(interp, arrs)
    np.reshape = lambda a, shape: reshape(interp, a, shape)
    np.ascontiguousarray = lambda a, dtype=None: a
    np.ravel = lambda a: ravel(interp, a)
