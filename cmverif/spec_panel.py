"""Spec functions for the panel kernels: Hessians / bilinear forms of energies
built from the Ritz series the package itself evaluates (DESIGN section 1).

A *field operator* for dof p is a dict  component -> [(coef P, ox, oy), ...]:
the contribution of a unit amplitude c_{(i,j),p} to that component is
    sum coef * d^ox f_i / dxi^ox * d^oy g_j / deta^oy .
The bilinear form  int int  g_A^T W g_B dx dy  is then a sum of products of
1-D integral atoms -- the same atoms the table-function contracts return."""
from fractions import Fraction
from .poly import P, normal

DOFS = ('u', 'v', 'w')


def flagset(d, axis):
    return tuple(P.atom('%s%s%s%s' % (d, e, k, axis)) for e, k in (('1', 't'), ('1', 'r'), ('2', 't'), ('2', 'r')))


def _txt(x):
    if isinstance(x, P):
        return normal(x).text()
    return str(x)


def Iatom(a, b, limits=None, kind='full'):
    """exact 1-D integral of f^{(oa)}_{ia}[Xa] * f^{(ob)}_{ib}[Xb]; a, b = (order, index, flags)
    kind: 'full' over [-1,1]; '12' over limits=(xi1,xi2); 'c0c1': second factor evaluated at c0+c1*xi (ordered!)"""
    ka = (a[0], _txt(a[1]), tuple(_txt(f) for f in a[2]))
    kb = (b[0], _txt(b[1]), tuple(_txt(f) for f in b[2]))
    if kind != 'c0c1' and kb < ka:
        ka, kb = kb, ka
    lim = '' if limits is None else '{' + ','.join(_txt(l) for l in limits) + '}'
    name = 'I%s%s<%d,%s,%s|%d,%s,%s>' % (kind if kind != 'full' else '', lim, ka[0], ka[1], '/'.join(ka[2]), kb[0], kb[1], '/'.join(kb[2]))
    return P.atom(name)


FAMILY_ORDERS = {'ff': (0, 0), 'ffxi': (0, 1), 'ffxixi': (0, 2), 'fxifxi': (1, 1), 'fxifxixi': (1, 2),
                 'fxixifxixi': (2, 2), 'fxif': (1, 0)}


def table_contract(name):
    """contract of lib/src integral_<fam>[_12|_c0c1] (proved in C10): returns the spec atom"""
    fam = name[len('integral_'):]
    kind = 'full'
    if fam.endswith('_12'):
        fam, kind = fam[:-3], '12'
    elif fam.endswith('_c0c1'):
        fam, kind = fam[:-5], 'c0c1'
    oa, ob = FAMILY_ORDERS[fam]

    def contract(interp, args, kwargs):
        from .core import CheckerError
        args = list(args)
        lim = None
        if kind != 'full':
            lim = (args[0], args[1])
            args = args[2:]
        if len(args) != 10 or kwargs:
            raise CheckerError('table function %s called with %d arguments' % (name, len(args)))
        i, j = args[0], args[1]
        X, Y = tuple(args[2:6]), tuple(args[6:10])
        # requires 0 <= i,j < 30 is discharged by the kernel contract (m, n <= 30)
        interp.path.log.append(('table-call', name, i, j))
        return Iatom((oa, i, X), (ob, j, Y), lim, kind)
    return contract


def install_table_contracts(interp):
    fams = ['ff', 'ffxi', 'ffxixi', 'fxifxi', 'fxifxixi', 'fxixifxixi']
    for f in fams:
        interp.contracts['extern.integral_' + f] = table_contract('integral_' + f)
        interp.contracts['extern.integral_%s_12' % f] = table_contract('integral_%s_12' % f)
    for f in ['ff', 'ffxi', 'fxif', 'fxifxi', 'fxixifxixi']:
        interp.contracts['extern.integral_%s_c0c1' % f] = table_contract('integral_%s_c0c1' % f)


# --------------------------------------------------------------------------
def bilinear(opA, opB, W, iA, jA, iB, jB, fx, fy, a, b, ylimits=None, xlimits=None):
    """int int  sum_{s,t} W[s][t] * comp_s(A) * comp_t(B) dx dy  for unit amplitudes A=(dofA,iA,jA), B=(dofB,iB,jB).
    opA/opB: (dof, operator dict);  W: dict (s,t)->P;  fx[dof], fy[dof]: flag tuples.
    a, b: panel dimensions (jacobian a/2*b/2);  ylimits: (eta1, eta2) or None"""
    dA, OA = opA
    dB, OB = opB
    tot = P.const(0)
    J = a * b * Fraction(1, 4)
    for (s, t), w in W.items():
        if s not in OA or t not in OB:
            continue
        for (cA, oxA, oyA) in OA[s]:
            for (cB, oxB, oyB) in OB[t]:
                if xlimits is None:
                    ix = Iatom((oxA, iA, fx[dA]), (oxB, iB, fx[dB]))
                else:
                    ix = Iatom((oxA, iA, fx[dA]), (oxB, iB, fx[dB]), xlimits, '12')
                if ylimits is None:
                    iy = Iatom((oyA, jA, fy[dA]), (oyB, jB, fy[dB]))
                else:
                    iy = Iatom((oyA, jA, fy[dA]), (oyB, jB, fy[dB]), ylimits, '12')
                tot = tot + w * cA * cB * ix * iy * J
    return tot


def donnell_operators(a, b, r=None):
    """strain operators of the Donnell CLT kinematics (plate; cylinder adds w/r to eps_yy)"""
    sx, sy = 2 / a, 2 / b
    ops = {
        'u': {'exx': [(sx, 1, 0)], 'gxy': [(sy, 0, 1)]},
        'v': {'eyy': [(sy, 0, 1)], 'gxy': [(sx, 1, 0)]},
        'w': {'kxx': [(-sx * sx, 2, 0)], 'kyy': [(-sy * sy, 0, 2)], 'kxy': [(-2 * sx * sy, 1, 1)]},
    }
    if r is not None:
        ops['w']['eyy'] = [(1 / r, 0, 0)]
    return ops


def cone_operators(a, b, r, rp, cosa):
    """Donnell conical-shell kinematics on a section of constant radius r; rp = dr/dx (meridional slope),
    w positive along the outward normal:
      eyy = v,y + (rp*u + cosa*w)/r ; gxy = u,y + v,x - rp*v/r ; kyy = -w,yy - rp*w,x/r ; kxy = -2*w,xy + rp*w,y/r
    The twist term follows the package's own Donnell cone kinematics (conecyl/clpt cfstrain_donnell:
    kxt = -(2/r) w,xt + (sin(alpha)/r^2) w,t); the literature also has the variant with 2*rp -- the property
    statement does not pin the variant, so the package's own is taken."""
    sx, sy = 2 / a, 2 / b
    return {
        'u': {'exx': [(sx, 1, 0)], 'eyy': [(rp / r, 0, 0)], 'gxy': [(sy, 0, 1)]},
        'v': {'eyy': [(sy, 0, 1)], 'gxy': [(sx, 1, 0), (-rp / r, 0, 0)]},
        'w': {'eyy': [(cosa / r, 0, 0)], 'kxx': [(-sx * sx, 2, 0)],
              'kyy': [(-sy * sy, 0, 2), (-rp / r * sx, 1, 0)],
              'kxy': [(-2 * sx * sy, 1, 1), (rp / r * sy, 0, 1)]},
    }


STRAINS = ('exx', 'eyy', 'gxy', 'kxx', 'kyy', 'kxy')


def F_weights(F):
    """F: 6x6 array-like of P (symmetric) -> W dict over strain names"""
    W = {}
    for s in range(6):
        for t in range(6):
            v = F[s][t]
            if isinstance(v, P) and v.is_zero():
                continue
            W[(STRAINS[s], STRAINS[t])] = v
    return W


def slope_operators(a, b):
    sx, sy = 2 / a, 2 / b
    return {'w': {'wx': [(sx, 1, 0)], 'wy': [(sy, 0, 1)]}}


def kinetic_operators(a, b):
    sx, sy = 2 / a, 2 / b
    return {'u': {'u': [(P.const(1), 0, 0)]},
            'v': {'v': [(P.const(1), 0, 0)]},
            'w': {'w': [(P.const(1), 0, 0)], 'wx': [(sx, 1, 0)], 'wy': [(sy, 0, 1)]}}


def kinetic_weights(mu, h, d):
    """through-thickness integrals of mu*(u - z w,x)^2 ... with z in [d-h/2, d+h/2]"""
    I0 = mu * h
    I1 = mu * h * d
    I2 = mu * h * (d * d + h * h * Fraction(1, 12))
    return {('u', 'u'): I0, ('v', 'v'): I0, ('w', 'w'): I0,
            ('u', 'wx'): -I1, ('wx', 'u'): -I1, ('v', 'wy'): -I1, ('wy', 'v'): -I1,
            ('wx', 'wx'): I2, ('wy', 'wy'): I2}
