"""Run independent parts of a check in worker processes; each worker records its ledger calls, the parent replays them."""
import multiprocessing as mp
import os
import traceback


class Rec(object):
    """ledger look-alike that records the calls (all arguments must be picklable)"""
    METHODS = ('ok', 'fail', 'undecide', 'function', 'assume', 'trust', 'bounded_item', 'solver_time', 'canary', 'error', 'guard_stats', 'attr_reads')

    def __init__(self, tier='quick', known=()):
        self.calls = []
        self.tier = tier
        self.known = list(known)

    def __getattr__(self, name):
        if name in Rec.METHODS:
            def f(*a, **kw):
                self.calls.append((name, a, kw))
            return f
        raise AttributeError(name)

    def replay_into(self, led):
        for name, a, kw in self.calls:
            getattr(led, name)(*a, **kw)


def _run(arg):
    func, item, tier, known = arg
    rec = Rec(tier, known)
    from . import numguard
    before = dict(numguard.STATS)
    try:
        func(rec, item)
    except Exception:
        rec.error('%s: %s' % (item, traceback.format_exc()[-1500:]))
    rec.guard_stats(numguard.STATS['checked'] - before['checked'], numguard.STATS['skipped'] - before['skipped'])
    from . import pysym
    rec.attr_reads({k: set(v) for k, v in pysym.ATTR_READS.items()})
    return item, rec.calls


def run(led, func, items, procs=None):
    procs = procs or min(len(items), max(1, (os.cpu_count() or 2) - 1), 16)
    args = [(func, it, led.tier, led.known) for it in items]
    if procs <= 1 or len(items) <= 1:
        results = [_run(a) for a in args]
    else:
        ctx = mp.get_context('fork')
        with ctx.Pool(procs) as pool:
            results = pool.map(_run, args, chunksize=1)
    for item, calls in results:
        for name, a, kw in calls:
            getattr(led, name)(*a, **kw)
