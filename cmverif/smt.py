"""z3 / cvc5 discharge helpers.

* ``valid(formula)``: validity of a z3 formula (negation unsat), with model on
  refutation; ``unknown`` is reported as such (never as a violation).
* ``ground_close``: the decimal-literal comparison of two normal forms as a
  ground QF_LRA query (used to re-check the in-process rational comparison).
* ``abstract_identity``: the monomial-abstracted linear VC of DESIGN 2.4.
"""
import time
from fractions import Fraction
import z3

TIMEOUT_MS = 20000


def rv(fr):
    fr = Fraction(fr)
    return z3.RealVal('%d/%d' % (fr.numerator, fr.denominator))


def valid(formula, timeout_ms=TIMEOUT_MS, assumptions=()):
    s = z3.Solver()
    s.set('timeout', timeout_ms)
    for a in assumptions:
        s.add(a)
    s.add(z3.Not(formula))
    t = time.time()
    r = s.check()
    dt = time.time() - t
    if r == z3.unsat:
        return 'valid', None, dt
    if r == z3.sat:
        return 'invalid', s.model(), dt
    return 'unknown', s.reason_unknown(), dt


def satisfiable(formulas, timeout_ms=TIMEOUT_MS):
    s = z3.Solver()
    s.set('timeout', timeout_ms)
    for a in formulas:
        s.add(a)
    r = s.check()
    if r == z3.sat:
        return 'sat', s.model()
    if r == z3.unsat:
        return 'unsat', None
    return 'unknown', None


def ground_close(code, spec, rel):
    """z3 re-check that every coefficient of ``code`` is within rel of ``spec``"""
    conj = []
    for m in set(code.t) | set(spec.t):
        a = code.t.get(m, Fraction(0))
        b = spec.t.get(m, Fraction(0))
        d = rv(a) - rv(b)
        bound = rv(rel * abs(b))
        conj.append(z3.And(d <= bound, -d <= bound))
    return valid(z3.And(*conj) if conj else z3.BoolVal(True))


_mono_cache = {}


def mono_var(m):
    v = _mono_cache.get(m)
    if v is None:
        v = z3.Real('M%d' % len(_mono_cache))
        _mono_cache[m] = v
    return v


def poly_linear(p):
    """monomial-abstracted z3 term of a P: every power product is one real"""
    terms = []
    for m, c in p.t.items():
        if m:
            terms.append(rv(c) * mono_var(m))
        else:
            terms.append(rv(c))
    if not terms:
        return z3.RealVal(0)
    return z3.Sum(terms) if len(terms) > 1 else terms[0]


def abstract_identity(code, spec):
    """validity of code == spec with monomials as independent reals.  Valid iff
    the normal forms agree exactly; used for identities without literals."""
    return valid(poly_linear(code) == poly_linear(spec))
