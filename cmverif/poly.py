"""Exact Laurent-polynomial arithmetic over named atoms (Fraction coefficients).

This is the normal form of DESIGN 2.4: every real-valued expression met in the
code under contract is brought to  sum_k coef_k * prod_a atom_a**e_a  with
exact rational coefficients and integer (possibly negative) exponents.

* atoms are strings.  Division by a single monomial gives negative exponents;
  division by a proper polynomial introduces a canonical reciprocal atom
  ``inv[<canonical text of the divisor>]`` and records the divisor in
  ``DENOMS`` so that the caller can emit the non-vanishing side obligation.
* ``sin(x)``/``cos(x)`` atoms are reduced with sin^2 = 1 - cos^2 by
  ``trig_normal`` (assumption A3).  ``sqrt[..]`` atoms with even powers are
  reduced by ``sqrt_normal``.
* float literals are converted exactly (Fraction(float)); the decimal-literal
  tolerance of assumption A2 is applied only when two normal forms are
  compared (``close``).
"""
from fractions import Fraction
import re

ZERO = Fraction(0)
ONE = Fraction(1)

DENOMS = {}      # inv-atom name -> P (the polynomial whose reciprocal it is)
SQRTS = {}       # sqrt-atom name -> P (the radicand)


def _mmul(m1, m2):
    """multiply two monomials (sorted tuples of (atom, exp))"""
    if not m1:
        return m2
    if not m2:
        return m1
    d = dict(m1)
    for a, e in m2:
        ne = d.get(a, 0) + e
        if ne:
            d[a] = ne
        else:
            del d[a]
    return tuple(sorted(d.items()))


def _mpow(m, n):
    return tuple((a, e * n) for a, e in m)


class P(object):
    __slots__ = ('t',)

    def __init__(self, terms=None):
        self.t = terms if terms is not None else {}

    # -- constructors -----------------------------------------------------
    @staticmethod
    def const(c):
        if isinstance(c, P):
            return c
        if isinstance(c, float):
            if c != c or c in (float('inf'), float('-inf')):
                raise ValueError('non-finite float literal')
            c = Fraction(c)
        elif isinstance(c, bool):
            c = Fraction(int(c))
        elif isinstance(c, int):
            c = Fraction(c)
        elif not isinstance(c, Fraction):
            try:
                import numpy as _np
                if isinstance(c, _np.floating):
                    c = Fraction(float(c))
                elif isinstance(c, _np.integer):
                    c = Fraction(int(c))
                else:
                    raise TypeError('cannot lift %r to P' % (c,))
            except ImportError:
                raise TypeError('cannot lift %r to P' % (c,))
        return P({(): c}) if c else P({})

    @staticmethod
    def atom(name, e=1):
        return P({((name, e),): ONE})

    # -- predicates ---------------------------------------------------------
    def is_zero(self):
        return not self.t

    def is_const(self):
        return not self.t or (len(self.t) == 1 and () in self.t)

    def const_value(self):
        if not self.t:
            return ZERO
        if self.is_const():
            return self.t[()]
        raise ValueError('not a constant: %s' % self)

    def atoms(self):
        s = set()
        for m in self.t:
            for a, _ in m:
                s.add(a)
        return s

    def is_monomial(self):
        return len(self.t) == 1

    # -- arithmetic ---------------------------------------------------------
    def __add__(self, o):
        if not isinstance(o, P):
            try:
                o = P.const(o)
            except TypeError:
                return NotImplemented
        if not o.t:
            return self
        if not self.t:
            return o
        d = dict(self.t)
        for m, c in o.t.items():
            v = d.get(m)
            if v is None:
                d[m] = c
            else:
                v = v + c
                if v:
                    d[m] = v
                else:
                    del d[m]
        return P(d)
    __radd__ = __add__

    def __neg__(self):
        return P({m: -c for m, c in self.t.items()})

    def __pos__(self):
        return self

    def __sub__(self, o):
        if not isinstance(o, P):
            try:
                o = P.const(o)
            except TypeError:
                return NotImplemented
        return self + (-o)

    def __rsub__(self, o):
        try:
            return P.const(o) + (-self)
        except TypeError:
            return NotImplemented

    def __mul__(self, o):
        if not isinstance(o, P):
            try:
                o = P.const(o)
            except TypeError:
                return NotImplemented
        if not self.t or not o.t:
            return P({})
        a, b = self.t, o.t
        if len(a) == 1:
            (m1, c1), = a.items()
            if not m1:
                return P({m: c * c1 for m, c in b.items()})
            return P({_mmul(m1, m): c * c1 for m, c in b.items()})
        if len(b) == 1:
            (m2, c2), = b.items()
            if not m2:
                return P({m: c * c2 for m, c in a.items()})
            return P({_mmul(m, m2): c * c2 for m, c in a.items()})
        d = {}
        for m1, c1 in a.items():
            for m2, c2 in b.items():
                m = _mmul(m1, m2)
                v = d.get(m)
                if v is None:
                    d[m] = c1 * c2
                else:
                    d[m] = v + c1 * c2
        return P({m: c for m, c in d.items() if c})
    __rmul__ = __mul__

    def __pow__(self, n):
        if isinstance(n, P):
            if not n.is_const():
                raise ValueError('symbolic exponent')
            n = n.const_value()
        if isinstance(n, float):
            fn = Fraction(n)
            n = fn
        if isinstance(n, Fraction):
            if n.denominator == 1:
                n = int(n)
            elif n.denominator == 2:
                # half-integer power: sqrt atom
                k = n.numerator
                r = sqrt_of(self)
                return r ** k
            else:
                raise ValueError('unsupported exponent %s' % n)
        if n == 0:
            return P.const(1)
        if n < 0:
            return self.inverse() ** (-n)
        if len(self.t) == 1:
            (m, c), = self.t.items()
            return P({_mpow(m, n): c ** n})
        r = None
        base = self
        while n:
            if n & 1:
                r = base if r is None else r * base
            n >>= 1
            if n:
                base = base * base
        return r

    def inverse(self):
        if not self.t:
            raise ZeroDivisionError('division by the zero polynomial')
        if len(self.t) == 1:
            (m, c), = self.t.items()
            return P({_mpow(m, -1): 1 / c})
        # proper polynomial: canonical reciprocal atom (make the
        # lexicographically first monomial's coefficient 1)
        first = min(self.t)
        lead = self.t[first]
        normed = P({m: c / lead for m, c in self.t.items()})
        name = 'inv[' + normed.text() + ']'
        DENOMS.setdefault(name, normed)
        return P({((name, 1),): 1 / lead})

    def __truediv__(self, o):
        if not isinstance(o, P):
            try:
                o = P.const(o)
            except TypeError:
                return NotImplemented
        return self * o.inverse()

    def __rtruediv__(self, o):
        try:
            return P.const(o) * self.inverse()
        except TypeError:
            return NotImplemented

    # -- comparisons (structural!) -------------------------------------------
    def __eq__(self, o):
        if not isinstance(o, P):
            try:
                o = P.const(o)
            except TypeError:
                return False
        return self.t == o.t

    def __ne__(self, o):
        return not self.__eq__(o)

    def __hash__(self):
        return hash(frozenset(self.t.items()))

    def __bool__(self):
        raise TypeError('truth value of a symbolic polynomial requested '
                        '(use the symbolic executor): %s' % self.text()[:80])

    # -- calculus / substitution ---------------------------------------------
    def diff(self, atom):
        d = {}
        for m, c in self.t.items():
            for idx, (a, e) in enumerate(m):
                if a == atom:
                    if e == 1:
                        nm = m[:idx] + m[idx + 1:]
                    else:
                        nm = m[:idx] + ((a, e - 1),) + m[idx + 1:]
                    d[nm] = d.get(nm, ZERO) + c * e
                    break
        return P({m: c for m, c in d.items() if c})

    def subs(self, mapping):
        """substitute atoms by P / numbers (simultaneously)"""
        mp = {k: (v if isinstance(v, P) else P.const(v))
              for k, v in mapping.items()}
        out = P({})
        for m, c in self.t.items():
            term = P.const(c)
            rest = []
            for a, e in m:
                if a in mp:
                    term = term * (mp[a] ** e)
                else:
                    rest.append((a, e))
            if rest:
                term = term * P({tuple(rest): ONE})
            out = out + term
        return out

    def coeff_of(self, atom, e):
        """coefficient polynomial of atom**e"""
        d = {}
        for m, c in self.t.items():
            ee = 0
            rest = []
            for a, x in m:
                if a == atom:
                    ee = x
                else:
                    rest.append((a, x))
            if ee == e:
                d[tuple(rest)] = c
        return P(d)

    def degree_in(self, atom):
        return max([dict(m).get(atom, 0) for m in self.t] or [0])

    def evalf(self, env):
        """numeric evaluation with exact Fractions (env: atom -> Fraction)"""
        tot = ZERO
        for m, c in self.t.items():
            v = c
            for a, e in m:
                x = env[a]
                v = v * (x ** e)
            tot += v
        return tot

    # -- text -----------------------------------------------------------------
    def text(self):
        if not self.t:
            return '0'
        parts = []
        for m in sorted(self.t):
            c = self.t[m]
            ms = '*'.join(a if e == 1 else '%s^%d' % (a, e) for a, e in m)
            cs = str(c)
            parts.append(cs + ('*' + ms if ms else ''))
        return ' + '.join(parts)

    def __format__(self, spec):
        return self.text()

    def __repr__(self):
        s = self.text()
        return 'P(' + (s if len(s) < 200 else s[:200] + '...') + ')'
    __str__ = __repr__


def sqrt_of(p):
    p = p if isinstance(p, P) else P.const(p)
    if p.is_const():
        c = p.const_value()
        if c < 0:
            raise ValueError('sqrt of a negative constant')
        from math import isqrt
        n, d = c.numerator, c.denominator
        if isqrt(n) ** 2 == n and isqrt(d) ** 2 == d:
            return P.const(Fraction(isqrt(n), isqrt(d)))
    name = 'sqrt[' + p.text() + ']'
    SQRTS.setdefault(name, p)
    return P.atom(name)


# ---------------------------------------------------------------------------
# normalisations applied before comparison
# ---------------------------------------------------------------------------
_SIN = re.compile(r'^sin\((.*)\)$')


def _has_trig(p):
    for m in p.t:
        for a, e in m:
            if e >= 2 and a.startswith('sin('):
                return True
    return False


def trig_normal(p):
    """reduce sin(x)^k (k>=2) with sin^2 = 1 - cos^2 (A3)"""
    while _has_trig(p):
        keep = {}
        extra = P({})
        for m, c in p.t.items():
            hit = None
            for a, e in m:
                if e >= 2 and a.startswith('sin('):
                    hit = (a, e)
                    break
            if hit is None:
                keep[m] = c
                continue
            a, e = hit
            x = _SIN.match(a).group(1)
            rest = tuple((b, f) for b, f in m if b != a)
            k, r = divmod(e, 2)
            repl = (P.const(1) - P.atom('cos(%s)' % x, 2)) ** k
            if r:
                repl = repl * P.atom(a)
            extra = extra + P({rest: c}) * repl
        p = P(keep) + extra
    return p


def sqrt_normal(p):
    if not any(a.startswith('sqrt[') for a in p.atoms()):
        return p
    changed = True
    while changed:
        changed = False
        out = P({})
        for m, c in p.t.items():
            hit = None
            for a, e in m:
                if a.startswith('sqrt[') and (e >= 2 or e <= -1):
                    hit = (a, e)
                    break
            if hit is None:
                out = out + P({m: c})
                continue
            a, e = hit
            rad = SQRTS[a]
            rest = tuple((b, f) for b, f in m if b != a)
            if e >= 2:
                k, r = divmod(e, 2)
                repl = rad ** k
                if r:
                    repl = repl * P.atom(a)
            else:
                # a^-1 = a / rad ; a^-e
                k = -e
                kk, r = divmod(k, 2)
                repl = (P.const(1) / rad) ** kk if kk else P.const(1)
                if r:
                    repl = repl * P.atom(a) * (P.const(1) / rad)
            out = out + P({rest: c}) * repl
            changed = True
        p = out
    return p


def normal(p):
    return trig_normal(sqrt_normal(p))


def close(code, spec, rel=Fraction(1, 10 ** 13)):
    """coefficient-wise comparison under the decimal-literal tolerance A2.

    Returns (ok, residual) where residual lists the offending monomials as
    (monomial, code_coef, spec_coef).  A monomial whose spec coefficient is
    exactly zero must be exactly zero in the code ... unless it is within
    rel * (largest |spec coefficient|) -- that slack is needed only for the
    expanded tables in lib/src where a coefficient is a sum of rounded
    decimals; it is reported separately by callers that do not want it."""
    bad = []
    keys = set(code.t) | set(spec.t)
    for m in keys:
        a = code.t.get(m, ZERO)
        b = spec.t.get(m, ZERO)
        if a == b:
            continue
        if b == 0 or abs(a - b) > rel * abs(b):
            bad.append((m, a, b))
    return (not bad), bad


def mono_text(m):
    return '*'.join(a if e == 1 else '%s^%d' % (a, e) for a, e in m) or '1'


# ---------------------------------------------------------------------------
# rational functions: elimination of reciprocal atoms
# ---------------------------------------------------------------------------
def inv_atoms(p):
    return sorted(a for a in p.atoms() if a.startswith('inv['))


def clear_one(p, x):
    """p * D^K with x = inv[D] eliminated (x*D == 1); returns (poly, K)"""
    D = DENOMS[x]
    by_k = {}
    for m, c in p.t.items():
        k = 0
        rest = []
        for a, e in m:
            if a == x:
                k = e
            else:
                rest.append((a, e))
        by_k.setdefault(k, {})[tuple(rest)] = c
    K = max(max(by_k), 0) if by_k else 0
    out = P({})
    for k, terms in by_k.items():
        out = out + P(terms) * (D ** (K - k))
    return out, K


def clear_pair(code, spec, limit=40):
    """multiply both sides by the same product of denominators until no
    reciprocal atom is left; returns (code', spec', [denominators used])"""
    used = []
    for _ in range(limit):
        xs = sorted(set(inv_atoms(code)) | set(inv_atoms(spec)))
        if not xs:
            return code, spec, used
        # eliminate the atom that does not occur inside another denominator first
        x = xs[-1]
        for cand in xs:
            if not any(cand in DENOMS[o].atoms() for o in xs if o != cand):
                x = cand
                break
        c2, k1 = clear_one(code, x)
        s2, k2 = clear_one(spec, x)
        D = DENOMS[x]
        if k1 < k2:
            c2 = c2 * D ** (k2 - k1)
        elif k2 < k1:
            s2 = s2 * D ** (k1 - k2)
        used.append(x)
        code, spec = normal(c2), normal(s2)
    raise ValueError('reciprocal elimination did not terminate')


def rational_close(code, spec, rel=Fraction(5, 10 ** 14)):
    c, s, used = clear_pair(normal(code), normal(spec))
    ok, bad = close(c, s, rel)
    if ok:
        # guard against an unsound normal form: evaluate the un-normalised sides numerically
        from . import numguard
        numguard.check_equal(code, spec)
    return ok, bad, used
