"""Harness for the complete-shell (ConeCyl) kernels: closed-form linear matrices and the field / strain functions.

Everything here executes the real ``.pyx`` text (pyxfront rewrite) symbolically:
  * ``strain_table``  reads the per-amplitude linear strain vectors off ``cfstrain_donnell`` / ``cfstrain_sanders``
    (the "package's own linear strain field" of C16);
  * ``field_table``   reads the basis functions off ``cfuvw`` (and ``fg``/``cfgss``);
  * ``run_matrix_kernel`` executes fk0 / fk0_cyl / fkG0 / fkG0_cyl / fk0edges and returns the bag of emitted triplets.
"""
import numpy as np
import z3

from .poly import P, normal
from .core import CheckerError
from . import kharness as K, kernel, trig, pysym
from .pysym import real, integer, to_z3

CONECYL = 'compmech.conecyl.'
PI_LITERAL = 3.141592653589793


def make_interp():
    it = K.make_interp()
    it.loop_modes[('*', '*')] = kernel.GenericLoop(counters=('c',), local=True)
    it.slot_always.add('c')
    it.contracts['extern.sin'] = lambda itp, a, kw: trig.tsin(a[0])
    it.contracts['extern.cos'] = lambda itp, a, kw: trig.tcos(a[0])
    it.builtins['float'] = lambda x=0: x if isinstance(x, P) else float(x)
    it.term_sink = None
    return it


def load(it, modname):
    """module with its ``pi`` literal replaced by the atom pi (obligation: the literal is the double nearest pi)"""
    m = it.module(modname)
    lit = m.g.get('pi')
    ok = None
    if not (isinstance(lit, P) and lit.atoms() == {'pi'}):
        import math
        val = lit.const_value() if isinstance(lit, P) and lit.is_const() else lit
        ok = (val is not None and float(val) == math.pi == PI_LITERAL)
        m.g['pi'] = P.atom('pi')
    return m, ok


def sym_F(n=6):
    """constitutive matrix: [[A, B], [B, D]] (+ transverse shear block for n == 8) with symmetric blocks (C01 contract)"""
    F = np.empty((n, n), dtype=object)
    F.fill(0)
    for s_ in range(6):
        for t_ in range(6):
            blk = 'A' if (s_ < 3 and t_ < 3) else ('D' if (s_ >= 3 and t_ >= 3) else 'B')
            x, y = s_ % 3, t_ % 3
            F[s_, t_] = real('%s%d%d' % (blk, min(x, y) + 1, max(x, y) + 1))
    if n == 8:
        for s_ in range(6, 8):
            for t_ in range(6, 8):
                F[s_, t_] = real('E%d%d' % (min(s_, t_) - 2, max(s_, t_) - 2))
    return F


def _is_index_cond(c):
    return isinstance(c, pysym.Cond) and c.kind == 'cmp' and bool(c.b.atoms()) and all(a in pysym.INT_ATOMS for a in c.b.atoms())


class CoefArray(object):
    """the amplitude vector c: loads are atoms c<k>, with the index polynomial remembered"""
    def __init__(self, name='c'):
        self.name = name
        self.index = {}

    def sym_load(self, interp, k, node):
        k = normal(k if isinstance(k, P) else P.const(k))
        a = '%s<%s>' % (self.name, k.text())
        self.index[a] = k
        d = kernel.deps_of(k)
        if d:
            kernel.ATOM_DEPS[a] = d
        return P.atom(a)

    def sym_store(self, interp, k, v, node):
        raise CheckerError('line %d: write to the amplitude vector (frame violation)' % node.lineno)


class Buf(object):
    """scratch/result vector addressed by a concrete point index"""
    def __init__(self, name):
        self.name = name
        self.vals = {}

    def sym_load(self, interp, k, node):
        k = int(normal(k).const_value()) if isinstance(k, P) else k
        if k not in self.vals:
            raise CheckerError('line %d: read of unset %s[%s]' % (node.lineno, self.name, k))
        return self.vals[k]

    def sym_store(self, interp, k, v, node):
        k = int(normal(k).const_value()) if isinstance(k, P) else k
        self.vals[k] = v


NONLIN_ATOMS = ('wx', 'wt', 'w0x', 'w0t', 'v_rot', 'w0')


def decode_dof(k, num0, num1, num2, m1, m2, width2=None):
    """index polynomial of an amplitude -> (family, loop vars, p)"""
    k = normal(k)
    if k.is_const():
        c = k.const_value()
        if c.denominator == 1 and 0 <= c < num0:
            return 0, (), int(c)
        return None
    ints = sorted(a for a in k.atoms() if a in pysym.INT_ATOMS and a not in ('m1', 'm2', 'n2'))
    for I in ints:
        d = normal(k - num0 - num1 * P.atom(I))
        if d.is_const():
            c = d.const_value()
            if c.denominator == 1 and 0 <= c < num1:
                return 1, (I,), int(c)
    for I in ints:
        for J in ints:
            if I == J:
                continue
            d = normal(k - num0 - num1 * m1 - num2 * P.atom(I) - num2 * m2 * (P.atom(J) - 1))
            if d.is_const():
                c = d.const_value()
                if c.denominator == 1 and 0 <= c < (width2 or num2):
                    return 2, (I, J), int(c)
    return None


def module_consts(m):
    out = {}
    for k in ('i0', 'j0', 'num0', 'num1', 'num2', 'e_num'):
        v = m.g.get(k)
        if isinstance(v, P) and v.is_const():
            v = int(v.const_value())
        out[k] = v
    return out


def strain_table(it, commons, func):
    """per-amplitude linear strain vectors  e_A(x, t)  read off ``func`` (cfstrain_donnell / cfstrain_sanders).

    Returns (table, info): table[(family, p)] = (loopvars, [P]*e_num); atoms: x, t, r (= r2 + x*sina, checked), L, r2,
    sin/cos(alpharad) as sina/cosa atoms of the caller, tLA."""
    m, pi_ok = load(it, commons)
    consts = module_consts(m)
    e_num = consts['e_num']
    f = K.kernel_func(it, commons, func)
    c = CoefArray('c')
    x, t = real('x'), real('t')
    sina, cosa = real('sina'), real('cosa')
    r2, L, tLA = real('r2'), real('L'), real('tLA')
    m1, m2, n2 = integer('m1'), integer('m2'), integer('n2')
    es = Buf('es')
    bufs = {}

    def filler(name, atom):
        def contract(itp, args, kw):
            out = args[-1] if name in ('cfwx', 'cfwt', 'cfv') else args[-2]
            if hasattr(out, 'entries'):
                out.entries.append((P.atom('i'), ('i',), P.atom(atom)))
                return None
            if not isinstance(out, K.LocalBuf):
                raise CheckerError('%s: output is not a scratch buffer' % name)
            out.fill = lambda k: P.atom(atom)
            return None
        return contract
    saved = dict(it.contracts)
    it.contracts[commons + '.cfwx'] = filler('cfwx', 'wx')
    it.contracts[commons + '.cfwt'] = filler('cfwt', 'wt')
    it.contracts[commons + '.cfv'] = filler('cfv', 'v_rot')
    it.contracts[commons + '.cfw0x'] = filler('cfw0x', 'w0x')
    it.contracts[commons + '.cfw0t'] = filler('cfw0t', 'w0t')
    for nm in ('cfw0x', 'cfw0t'):
        m.g[nm] = pysym.ExternalFunc(commons + '.' + nm)
    it.abstract_locals[(func, 'r')] = 'r'
    it.facts += [to_z3(L) > 0, to_z3(r2) > 0, to_z3(P.atom('r')) > 0, to_z3(cosa) > 0, to_z3(m1) >= 1, to_z3(m2) >= 1, to_z3(n2) >= 1]
    n_defs0 = len(it.local_defs.get('r', []))
    it.term_sink = []
    args = [c, sina, cosa, tLA, [x], [t], 1, r2, L, m1, m2, n2, None, 0, 0, 0, es]
    try:
        res = it.explore(lambda: it.call(f, args, {}))
    finally:
        sink, it.term_sink = it.term_sink, None
        it.contracts = saved
    if len(res) == 1 and res[0][1][0] == 'raise' and res[0][1][1].tname == 'NotImplementedError':
        return None, dict(consts=consts, pi_ok=pi_ok, not_implemented=True)
    if len(res) != 1 or res[0][1][0] != 'return':
        raise CheckerError('%s.%s: expected exactly one returning path, got %r' % (commons, func, [(o[0], getattr(o[1], 'eargs', None)) for _, o in res]))
    # family 0: the final strain entries with the loop sums dropped, linear part in c<0..num0-1>
    table = {}
    names = [None] * e_num
    finals = [es.vals.get(k) for k in range(e_num)]
    if any(v is None for v in finals):
        raise CheckerError('%s.%s: not all strain components are stored' % (commons, func))

    def linear_part(p):
        """{c-atom: coefficient} of the monomials that are of degree one in c and free of the quadratic carriers"""
        out = {}
        for mono, coef in p.t.items():
            cs = [(a, e) for a, e in mono if a in c.index]
            if any(a in NONLIN_ATOMS for a, e in mono):
                continue
            if len(cs) != 1 or cs[0][1] != 1:
                continue
            rest = tuple((a, e) for a, e in mono if a != cs[0][0])
            out.setdefault(cs[0][0], P({}))
            out[cs[0][0]] = out[cs[0][0]] + P({rest: coef})
        return out
    # which local variable feeds which es slot: read from the stores (es[e_num*i + k] = <name>): the values are
    # init + SUM atoms; the un-summed contributions are in the sink keyed by the local's name.  Map name -> slot by
    # matching the SUM-free part.
    init = {}
    for k, v in enumerate(finals):
        v = v if isinstance(v, P) else P.const(v)
        nos = P({mono: coef for mono, coef in v.t.items() if not any(a.startswith('SUM{') for a, _ in mono)})
        init[k] = nos
        for a, lin in linear_part(nos).items():
            d = decode_dof(c.index[a], consts['num0'], consts['num1'], consts['num2'], m1, m2)
            if d is None or d[0] != 0:
                raise CheckerError('%s.%s: amplitude %s outside the loops is not one of the first %d' % (commons, func, a, consts['num0']))
            table.setdefault((0, d[2]), ((), [P({})] * e_num))
            vec = list(table[(0, d[2])][1])
            vec[k] = vec[k] + lin
            table[(0, d[2])] = ((), vec)
    # slot of each accumulator name: from the function's AST (es[e_num*i + k] = name)
    import ast as _ast
    slot_of = {}
    for node in _ast.walk(f.node):
        if isinstance(node, _ast.Assign) and isinstance(node.targets[0], _ast.Subscript) and isinstance(node.value, _ast.Name) \
                and isinstance(node.targets[0].value, _ast.Name) and node.targets[0].value.id == 'es':
            idx = node.targets[0].slice
            if isinstance(idx, _ast.BinOp) and isinstance(idx.right, _ast.Constant):
                slot_of[node.value.id] = idx.right.value
    for name, lv, rhs, conds in sink:
        if name not in slot_of:
            raise CheckerError('%s.%s: accumulator %s is not a strain component' % (commons, func, name))
        if any(_is_index_cond(cd) for cd in conds):
            raise CheckerError('%s.%s: guarded strain contribution' % (commons, func))
        k = slot_of[name]
        for a, lin in linear_part(rhs).items():
            d = decode_dof(c.index[a], consts['num0'], consts['num1'], consts['num2'], m1, m2)
            if d is None:
                raise CheckerError('%s.%s: cannot decode amplitude index %s' % (commons, func, c.index[a]))
            fam, vars_, p = d
            key = (fam, p)
            if key not in table:
                table[key] = (vars_, [P({})] * e_num)
            if table[key][0] != vars_:
                raise CheckerError('%s.%s: amplitude family %s read with different loop variables' % (commons, func, key))
            vec = list(table[key][1])
            vec[k] = vec[k] + lin
            table[key] = (vars_, vec)
    info = dict(consts=consts, pi_ok=pi_ok, r_defs=it.local_defs.get('r', [])[n_defs0:], module=m)
    return table, info


# ---------------------------------------------------------------------------------------------------------------
# matrix kernels
def run_matrix_kernel(it, modname, fname, args, abstract=()):
    """execute a triplet-emitting kernel; returns dict(em=[...], obligations=[...], defs={alias: [P]})"""
    m, pi_ok = load(it, modname)
    f = K.kernel_func(it, modname, fname)
    for nm in abstract:
        it.abstract_locals[(fname, nm)] = nm
    n0 = {nm: len(it.local_defs.get(nm, [])) for nm in abstract}
    res = it.explore(lambda: it.call(f, args, {}))
    for nm in abstract:
        it.abstract_locals.pop((fname, nm), None)
    if len(res) != 1 or res[0][1][0] != 'return':
        raise CheckerError('%s.%s: expected exactly one returning path, got %r' % (modname, fname, [(o[0], getattr(o[1], 'eargs', None)) for _, o in res]))
    path, out = res[0]
    coo = out[1]
    if not (isinstance(coo, pysym.Opaque) and coo.kind == 'coo'):
        raise CheckerError('%s.%s does not return a coo_matrix' % (modname, fname))
    em = K.emissions(coo)
    defs = {nm: [d[0] for d in it.local_defs.get(nm, [])[n0[nm]:]] for nm in abstract}
    return dict(em=em, obligations=list(path.obligations), defs=defs, pi_ok=pi_ok, coo=coo, consts=module_consts(m), path=path)


def decode_emissions(it, em, consts, m1, m2):
    """adds 'A' = (family, vars, p) for the row and 'B' for the column to every emission"""
    out = []
    div_ids = set(id(c) for c in it.div_conds)
    for g in em:
        a = decode_dof(g['row'] if isinstance(g['row'], P) else P.const(g['row']), consts['num0'], consts['num1'], consts['num2'], m1, m2)
        b = decode_dof(g['col'] if isinstance(g['col'], P) else P.const(g['col']), consts['num0'], consts['num1'], consts['num2'], m1, m2)
        if a is None or b is None:
            raise CheckerError('line %d: row/col %s, %s is not an amplitude index' % (g['line'], g['row'], g['col']))
        h = dict(g)
        h['A'], h['B'] = a, b
        h['guards'] = [c for c in g['conds'] if id(c) not in div_ids]
        for c in h['guards']:
            if not _is_index_cond(c):
                raise CheckerError('line %d: emission guarded by a non-index condition %r' % (g['line'], c))
        out.append(h)
    return out


ROLE_VARS = {('A', 1): ('i1',), ('B', 1): ('k1',), ('A', 2): ('i2', 'j2'), ('B', 2): ('k2', 'l2'), ('A', 0): (), ('B', 0): ()}


def canon_emission(h):
    """rename the loop variables of an emission to the canonical role names (rows i1 | i2,j2; columns k1 | k2,l2)"""
    ren = {}
    for side in ('A', 'B'):
        fam, vars_, p = h[side]
        for v, w in zip(vars_, ROLE_VARS[(side, fam)]):
            if ren.get(v, w) != w:
                # the same loop variable indexes both the row and the column (diagonal-only emission): keep the row
                # name and add the equality as a guard
                h = dict(h)
                h.setdefault('eq', []).append((ren[v], w))
                continue
            ren[v] = w
    val = h['val'] if isinstance(h['val'], P) else P.const(h['val'])
    guards = list(h['guards'])
    if any(v != w for v, w in ren.items()):
        tmp = {v: P.atom('%tmp_' + w) for v, w in ren.items()}
        fin = {'%tmp_' + w: P.atom(w) for w in ren.values()}
        for w in ren.values():
            pysym.INT_ATOMS.add('%tmp_' + w)
        val = trig.tsubs(trig.tsubs(val, tmp), fin)
        guards = [pysym.Cond('cmp', c.a, normal(c.b.subs(tmp).subs(fin))) for c in guards]
    out = dict(h)
    out['val'], out['guards'] = val, guards
    out['A'] = (h['A'][0], ROLE_VARS[('A', h['A'][0])], h['A'][2])
    out['B'] = (h['B'][0], ROLE_VARS[('B', h['B'][0])], h['B'][2])
    for a, b in h.get('eq', []):
        out['guards'].append(pysym.Cond('cmp', '==', P.atom(a) - P.atom(b)))
    return out


def dof_index(fam, vars_, p, consts, m1, m2):
    if fam == 0:
        return P.const(p)
    if fam == 1:
        return consts['num0'] + consts['num1'] * P.atom(vars_[0]) + p
    return consts['num0'] + consts['num1'] * m1 + consts['num2'] * P.atom(vars_[0]) + consts['num2'] * m2 * (P.atom(vars_[1]) - 1) + p


class Case(object):
    def __init__(self, facts, subs, desc):
        self.facts = facts      # z3
        self.subs = subs        # atom -> P  (equalities applied to values)
        self.desc = desc

    def extend(self, cond, positive):
        c = cond if positive else cond.neg()
        subs = dict(self.subs)
        if c.kind == 'cmp' and c.a == '==':
            eq = _equality_subst(normal(c.b.subs(subs)) if subs else c.b)
            if eq is not None:
                k, v = eq
                subs = {a: (normal(b.subs({k: v})) if isinstance(b, P) else b) for a, b in subs.items()}
                subs[k] = v
        return Case(self.facts + [pysym.cond_z3(c)], subs, self.desc + [repr(c)])


def _equality_subst(b):
    """b == 0 with b = x - y or x - const  ->  (atom to eliminate, replacement); prefers eliminating the column variable"""
    b = normal(b)
    lin = {}
    const = 0
    for m, c in b.t.items():
        if not m:
            const = c
        elif len(m) == 1 and m[0][1] == 1:
            lin[m[0][0]] = c
        else:
            return None
    if len(lin) == 1:
        (a, c), = lin.items()
        return a, P.const(-const / c)
    if len(lin) == 2 and const == 0:
        (a, ca), (b2, cb) = sorted(lin.items())
        if ca == -cb:
            # eliminate the "column" name (k*, l*) if there is one
            for x, y in ((a, b2), (b2, a)):
                if x[0] in 'kl':
                    return x, P.atom(y)
            return b2, P.atom(a)
    return None


class Matcher(object):
    """case analysis over the index relations that the kernels' guards distinguish"""
    def __init__(self, it, consts, m1, m2, n2, timeout=20000, extra_facts=()):
        self.it, self.consts, self.m1, self.m2, self.n2 = it, consts, m1, m2, n2
        self.extra_facts = list(extra_facts)
        self.timeout = timeout
        self.solver_time = 0.0
        self.queries = 0

    def range_facts(self, famA, famB):
        z = []
        for side, fam in (('A', famA), ('B', famB)):
            vs = ROLE_VARS[(side, fam)]
            if fam == 1:
                z += [to_z3(P.atom(vs[0])) >= self.consts['i0'], to_z3(P.atom(vs[0])) < to_z3(self.m1) + self.consts['i0']]
            if fam == 2:
                z += [to_z3(P.atom(vs[0])) >= self.consts['i0'], to_z3(P.atom(vs[0])) < to_z3(self.m2) + self.consts['i0'],
                      to_z3(P.atom(vs[1])) >= self.consts['j0'], to_z3(P.atom(vs[1])) < to_z3(self.n2) + self.consts['j0']]
        z += [to_z3(self.m1) >= 1, to_z3(self.m2) >= 1, to_z3(self.n2) >= 1]
        return z + self.extra_facts

    def _check(self, facts, goal):
        """'valid' | 'invalid' | 'unknown' for  facts => goal"""
        import time
        s = z3.Solver()
        s.set('timeout', self.timeout)
        for f in facts:
            s.add(f)
        s.add(z3.Not(goal))
        t = time.time()
        r = s.check()
        self.solver_time += time.time() - t
        self.queries += 1
        if r == z3.unsat:
            return 'valid'
        if r == z3.sat:
            return 'invalid'
        return 'unknown'

    def status(self, case, cond_z):
        a = self._check(case.facts, cond_z)
        if a == 'valid':
            return 'implied'
        b = self._check(case.facts, z3.Not(cond_z))
        if b == 'valid':
            return 'excluded'
        if a == 'unknown' or b == 'unknown':
            raise CheckerError('index condition undecided by z3 in case %s' % case.desc)
        return 'open'

    def feasible(self, case):
        s = z3.Solver()
        s.set('timeout', self.timeout)
        for f in case.facts:
            s.add(f)
        r = s.check()
        if r == z3.unknown:
            raise CheckerError('case feasibility undecided: %s' % case.desc)
        return r == z3.sat

    def cases(self, famA, famB, emission_sets, extra_splits=()):
        """yield (case, {setname: [emissions whose guards hold]}) for the region row-block <= col-block, refined until every
        guard of every emission set and every condition in extra_splits is decided"""
        rowb = dof_index(famA, ROLE_VARS[('A', famA)], 0, self.consts, self.m1, self.m2)
        colb = dof_index(famB, ROLE_VARS[('B', famB)], 0, self.consts, self.m1, self.m2)
        base = Case(self.range_facts(famA, famB), {}, [])
        work = [base]
        while work:
            case = work.pop()
            if not self.feasible(case):
                continue
            split = None
            chosen = {}
            for name, ems in emission_sets.items():
                chosen[name] = []
                for h in ems:
                    ok = True
                    for g in h['guards']:
                        st = self.status(case, pysym.cond_z3(g))
                        if st == 'excluded':
                            ok = False
                            break
                        if st == 'open':
                            split = g
                            ok = False
                            break
                    if split is not None:
                        break
                    if ok:
                        chosen[name].append(h)
                if split is not None:
                    break
            if split is None:
                for g in extra_splits:
                    if self.status(case, pysym.cond_z3(g)) == 'open':
                        split = g
                        break
            if split is not None:
                work.append(case.extend(split, True))
                work.append(case.extend(split, False))
                continue
            yield case, chosen

    def pairs(self, case, famA, famB):
        """(p, q) with row <= col under the case (block bases plus offsets)"""
        na = self.consts['num%d' % famA]
        nb = self.consts['num%d' % famB]
        for p in range(na):
            for q in range(nb):
                row = dof_index(famA, ROLE_VARS[('A', famA)], p, self.consts, self.m1, self.m2)
                col = dof_index(famB, ROLE_VARS[('B', famB)], q, self.consts, self.m1, self.m2)
                d = normal(row - col)
                if d.is_const():
                    st = 'implied' if d.const_value() <= 0 else 'excluded'
                else:
                    st = self.status(case, to_z3(d) <= 0)
                if st == 'implied':
                    yield p, q
                elif st == 'open':
                    raise CheckerError('row<=col undecided for (%d,%d) in case %s' % (p, q, case.desc))


def entry_sum(ems, p, q, case):
    tot = P({})
    for h in ems:
        if h['A'][2] == p and h['B'][2] == q:
            tot = tot + h['val']
    if case.subs:
        tot = trig.tsubs(tot, case.subs)
    return trig.tnormal(tot)


# ---------------------------------------------------------------------------------------------------------------
# spec: Hessian of the strain energy from the strain table
def theta_integrate(p, distinct=lambda a, b: None):
    """integral over t in [0, 2*pi] of a polynomial in sin/cos(n*t) atoms (n a positive integer expression).

    Orthogonality lemmas used (trusted mathematics): for integers j, l >= 1:
      int 1 = 2*pi; int sin(j t) = int cos(j t) = 0; int sin(j t) cos(j t) = 0; int cos(j t)^2 = int sin(j t)^2 = pi;
      for j != l every product of one trig function of j*t and one of l*t integrates to zero.
    ``distinct(b1, b2)`` must return True when the two frequencies are known to differ."""
    out = P({})
    two_pi = 2 * P.atom('pi')
    for mono, coef in trig.tnormal(p).t.items():
        th = [(a, e) for a, e in mono if a in trig.TRIG and 't' in trig.TRIG[a][1].atoms()]
        rest = tuple((a, e) for a, e in mono if (a, e) not in th)
        deg = sum(e for _, e in th)
        if any(e < 0 for _, e in th):
            raise CheckerError('theta integration: negative power of a trigonometric atom')
        if deg == 0:
            out = out + P({rest: coef}) * two_pi
        elif deg == 1:
            continue
        elif deg == 2:
            if len(th) == 1:
                a, e = th[0]
                kind, base = trig.TRIG[a]
                if kind != 'cos':
                    raise CheckerError('theta integration: sin^2 not reduced')
                out = out + P({rest: coef}) * P.atom('pi')
            else:
                (a, _), (b, _) = th
                ba, bb = trig.TRIG[a][1], trig.TRIG[b][1]
                if ba == bb:
                    continue        # sin * cos of the same frequency
                if distinct(ba, bb) is True:
                    continue
                raise CheckerError('theta integration: frequencies %s and %s not known to differ' % (ba.text(), bb.text()))
        else:
            raise CheckerError('theta integration: degree %d monomial' % deg)
    return out


def rename_table_entry(entry, role):
    """strain vector of the table (loop vars i1 | i2,j2) with the variable names of the given role (A rows / B columns)"""
    vars_, vec = entry
    fam = {0: 0, 1: 1, 2: 2}[len(vars_)]
    new = ROLE_VARS[(role, fam)]
    if tuple(vars_) == tuple(new):
        return list(vec)
    mp = {v: P.atom(w) for v, w in zip(vars_, new)}
    return [trig.tsubs(x, mp) for x in vec]


def field_table(it, commons, func='cfuvw', width2=None):
    """per-amplitude basis functions read off ``cfuvw``: table[(family, p)] = (loopvars, {component: P}) with components
    'u','v','w','phix','phit' (the output arrays of the function); atoms x, t, L, r2, cosa, tLA."""
    m, pi_ok = load(it, commons)
    consts = module_consts(m)
    f = K.kernel_func(it, commons, func)
    sig = [nm for _, nm in m.pyx.sigs[func]]
    c = CoefArray('c')
    x, t = real('x'), real('t')
    m1, m2, n2 = integer('m1'), integer('m2'), integer('n2')
    bufs = {}
    args = []
    for nm in sig:
        if nm == 'c':
            args.append(c)
        elif nm in ('m1', 'm2', 'n2'):
            args.append({'m1': m1, 'm2': m2, 'n2': n2}[nm])
        elif nm == 'xs':
            args.append([x])
        elif nm == 'ts':
            args.append([t])
        elif nm == 'size':
            args.append(1)
        elif nm in ('us', 'vs', 'ws', 'phixs', 'phits'):
            bufs[nm[:-1]] = Buf(nm)
            args.append(bufs[nm[:-1]])
        else:
            args.append(real(nm))
    it.term_sink = []
    try:
        res = it.explore(lambda: it.call(f, args, {}))
    finally:
        sink, it.term_sink = it.term_sink, None
    if len(res) != 1 or res[0][1][0] != 'return':
        raise CheckerError('%s.%s: expected exactly one returning path' % (commons, func))
    table = {}

    def add(key, vars_, comp, coef):
        if key not in table:
            table[key] = (vars_, {})
        if table[key][0] != vars_:
            raise CheckerError('%s.%s: amplitude family %s read with different loop variables' % (commons, func, key))
        d = table[key][1]
        d[comp] = d.get(comp, P({})) + coef

    def linear(p):
        out = {}
        for mono, coef in p.t.items():
            cs = [(a, e) for a, e in mono if a in c.index]
            if not cs:
                if mono and any(a.startswith('SUM{') for a, _ in mono):
                    continue
                if not mono and coef == 0:
                    continue
                raise CheckerError('%s.%s: field term without an amplitude' % (commons, func))
            if len(cs) != 1 or cs[0][1] != 1:
                raise CheckerError('%s.%s: field not linear in the amplitudes' % (commons, func))
            rest = tuple((a, e) for a, e in mono if a != cs[0][0])
            out[cs[0][0]] = out.get(cs[0][0], P({})) + P({rest: coef})
        return out
    for comp, b in bufs.items():
        v = b.vals.get(0)
        if v is None:
            raise CheckerError('%s.%s: %s not stored' % (commons, func, comp))
        v = v if isinstance(v, P) else P.const(v)
        nos = P({mono: coef for mono, coef in v.t.items() if not any(a.startswith('SUM{') for a, _ in mono)})
        for a, coef in linear(nos).items():
            d = decode_dof(c.index[a], consts['num0'], consts['num1'], consts['num2'], m1, m2)
            if d is None or d[0] != 0:
                raise CheckerError('%s.%s: amplitude %s outside the loops' % (commons, func, a))
            add((0, d[2]), (), comp, coef)
    for name, lv, rhs, conds in sink:
        if name not in bufs:
            raise CheckerError('%s.%s: accumulator %s is not a field component' % (commons, func, name))
        if any(_is_index_cond(cd) for cd in conds):
            raise CheckerError('%s.%s: guarded field contribution' % (commons, func))
        for a, coef in linear(rhs).items():
            d = decode_dof(c.index[a], consts['num0'], consts['num1'], consts['num2'], m1, m2, width2=width2)
            if d is None:
                raise CheckerError('%s.%s: cannot decode amplitude index %s' % (commons, func, c.index[a]))
            add((d[0], d[2]), d[1], name, coef)
    return table, dict(consts=consts, pi_ok=pi_ok)


def strain_from_field(fld, kind, sina, cosa):
    """linear first-order-shear Donnell strain operator applied to a basis function (u, v, w, phix, phit):
         exx = u,x   ett = (sina u + v,t + cosa w)/r   gxt = v,x + (u,t - sina v)/r
         kxx = phix,x   ktt = (sina phix + phit,t)/r   kxt = phit,x + (phix,t - sina phit)/r
         gtz = phit + (w,t - cosa v)/r   gxz = phix + w,x
    (r is the atom of the frozen radius; derivatives by the chain rule through the trig atoms)"""
    z = P({})
    if kind == 'clpt_donnell':
        # classical Donnell cone operator, in the variant the package's own cfstrain_donnell functions implement
        #   kxx = -w,xx   ktt = -sina w,x / r - w,tt / r^2   kxt = -2 w,xt / r + sina w,t / r^2
        u, v, w = (fld.get(k, z) for k in ('u', 'v', 'w'))
        dx = lambda f: trig.tdiff(f, 'x') if not f.is_zero() else z
        dt = lambda f: trig.tdiff(f, 't') if not f.is_zero() else z
        ri = P.atom('r', -1)
        return [dx(u),
                (sina * u + dt(v) + cosa * w) * ri,
                dx(v) + (dt(u) - sina * v) * ri,
                -dx(dx(w)),
                -sina * dx(w) * ri - dt(dt(w)) * ri * ri,
                -2 * dx(dt(w)) * ri + sina * dt(w) * ri * ri]
    if kind != 'fsdt_donnell':
        raise CheckerError('no strain operator for %s' % kind)
    u, v, w, px, pt = (fld.get(k, z) for k in ('u', 'v', 'w', 'phix', 'phit'))
    dx = lambda f: trig.tdiff(f, 'x') if not f.is_zero() else z
    dt = lambda f: trig.tdiff(f, 't') if not f.is_zero() else z
    ri = P.atom('r', -1)
    return [dx(u),
            (sina * u + dt(v) + cosa * w) * ri,
            dx(v) + (dt(u) - sina * v) * ri,
            dx(px),
            (sina * px + dt(pt)) * ri,
            dx(pt) + (dt(px) - sina * pt) * ri,
            pt + (dt(w) - cosa * v) * ri,
            px + dx(w)]
