"""Harness that executes a Cython kernel (mechanically extracted) symbolically
and returns the bag of emitted triplets for a generic loop iteration."""
import itertools
from fractions import Fraction

import numpy as np
import z3

from .poly import P, normal, rational_close, mono_text
from .core import CheckerError
from . import pysym, shims, kernel, spec_panel
from .pysym import Interp, Obj, Opaque, real, integer, to_z3, Cond
from .kernel import GenericLoop, OutArray, InArray, Slot
from .induct import GList, indexed_atom

FLAG_NAMES = ['%s%s%s%s' % (d, e, k, ax) for d in 'uvw' for ax in 'xy' for e in '12' for k in 'tr']


def make_interp(counters=('c',)):
    it = Interp()
    shims.install(it)
    spec_panel.install_table_contracts(it)
    it.loop_modes[('*', '*')] = GenericLoop(counters=counters)

    def coo(interp, args, kwargs):
        data = args[0]
        if not (isinstance(data, tuple) and len(data) == 2 and isinstance(data[1], tuple)):
            raise CheckerError('coo_matrix contract: expected (v, (r, c))')
        v, (r, c) = data
        return Opaque('coo', v=v, r=r, c=c, shape=kwargs.get('shape'))
    it.contracts['scipy.sparse.coo_matrix'] = coo
    it.builtins['malloc'] = lambda *a: LocalBuf()
    it.builtins['free'] = lambda *a: None
    it.builtins['SIZEOF'] = 1
    it.builtins['prange'] = lambda n, **kw: it.builtins['range'](n)
    it.builtins['PTR'] = lambda arr, *idx: Ptr(arr, idx)
    it.builtins['CARRAY'] = lambda n: [None] * pysym._toint(n)
    return it


class LocalBuf(object):
    """malloc'ed scratch vector filled by calc_vec_* (contract) and read by index"""
    def __init__(self):
        self.fill = None     # callable index -> P

    def sym_load(self, interp, k, node):
        if self.fill is None:
            raise CheckerError('line %d: read of uninitialised buffer' % node.lineno)
        return self.fill(k)

    def sym_store(self, interp, k, v, node):
        raise CheckerError('line %d: store into scratch buffer' % node.lineno)


class Ptr(object):
    def __init__(self, arr, idx):
        self.arr, self.idx = arr, idx


def sym_panel(it, extra=None, cls_module='compmech.panel._panel', cls_name='Panel', name='panel'):
    cls = it.module(cls_module).g[cls_name]
    p = Obj(cls)
    p.name = name
    for f in FLAG_NAMES:
        p.attrs[f] = real(f)
    p.attrs['a'] = real('a')
    p.attrs['b'] = real('b')
    p.attrs['r'] = real('r')
    p.attrs['alpharad'] = real('alpharad')
    p.attrs['m'] = integer('m')
    p.attrs['n'] = integer('n')
    p.attrs['mu'] = real('mu')
    N = integer('Nply')
    p.attrs['plyts'] = GList(indexed_atom('tply', integer('jj')), 'jj', N)
    lam = Obj(None)
    lam.name = 'lam'
    F = np.empty((6, 6), dtype=object)
    # requires (from the C01 contract): the 6x6 is [[A, B], [B, D]] with A, B, D each symmetric 3x3
    for s in range(6):
        for t in range(6):
            blk = 'A' if (s < 3 and t < 3) else ('D' if (s >= 3 and t >= 3) else 'B')
            x, y = s % 3, t % 3
            F[s, t] = real('%s%d%d' % (blk, min(x, y) + 1, max(x, y) + 1))
    lam.attrs['ABD'] = F
    p.attrs['lam'] = lam
    p.attrs['F'] = F
    it.facts += [to_z3(p.attrs['a']) > 0, to_z3(p.attrs['b']) > 0, to_z3(p.attrs['m']) >= 1, to_z3(p.attrs['m']) <= 30,
                 to_z3(p.attrs['n']) >= 1, to_z3(p.attrs['n']) <= 30]
    if extra:
        p.attrs.update(extra)
    return p


def kernel_func(it, modname, fname):
    m = it.module(modname)
    f = m.g.get(fname)
    if not isinstance(f, pysym.Func):
        raise CheckerError('%s has no function %s' % (modname, fname))
    return f


def emissions(coo):
    """group the stores of the three COO arrays by slot token -> list of dict(row, col, val, conds, loopvars, line)"""
    groups = {}
    for arr, key in ((coo.f['r'], 'row'), (coo.f['c'], 'col'), (coo.f['v'], 'val')):
        if not isinstance(arr, OutArray):
            raise CheckerError('COO component is not an output array')
        for (k, v, mode, conds, line, lv) in arr.stores:
            if not isinstance(k, Slot):
                raise CheckerError('line %d: store with a non-slot index' % line)
            g = groups.setdefault(k.seq, {'conds': conds, 'loopvars': lv, 'line': line})
            if key in g:
                raise CheckerError('line %d: slot written twice for %s' % (line, key))
            if key == 'val' and mode != '+=' and mode != '=':
                raise CheckerError('bad store mode')
            g[key] = v
    out = []
    for seq in sorted(groups):
        g = groups[seq]
        if not all(k in g for k in ('row', 'col', 'val')):
            raise CheckerError('incomplete triplet at line %d (row/col/val)' % g['line'])
        out.append(g)
    return out


def decode_index(expr, base, num, m, loopvars):
    """expr == base + num*(J*m + I) + p  ->  (I, J, p) with I, J loop-variable names"""
    expr = expr if isinstance(expr, P) else P.const(expr)
    for I, J in itertools.permutations(loopvars, 2):
        d = normal(expr - base - num * (P.atom(J) * m + P.atom(I)))
        if d.is_const():
            c = d.const_value()
            if c.denominator == 1 and 0 <= c < num:
                return I, J, int(c)
    return None


def compare(code, spec):
    ok, bad, used = rational_close(code if isinstance(code, P) else P.const(code), spec)
    if ok:
        return True, None
    return False, [{'monomial': mono_text(m), 'code': str(x), 'spec': str(y)} for m, x, y in bad[:6]]
