"""F-C: parser + symbolic evaluator for the C subset used by compmech/lib/src.

The files are read from /repo on every run.  The subset: function definitions
whose bodies consist of ``switch``/``case``/``default``, ``return [expr];``,
``lhs[const] = expr;`` and ``break;``; expressions over double parameters with
+ - * / unary minus, parentheses, decimal literals and ``pow(e, n)``.
Anything else is a parse error (exit 3 upstream), never skipped.

Semantics implemented = C semantics for this subset, *including fall-through*
from one ``case`` into the next when no ``return``/``break`` intervenes, with
doubles read as the exact rationals the literals denote after rounding to
binary64 (Fraction(float(lit))) and arithmetic over the reals (assumption A1).
"""
import re
from fractions import Fraction
from .poly import P

TOK = re.compile(r'''
    (?P<comment>//[^\n]*|/\*.*?\*/)
  | (?P<num>(?:\d+\.\d*|\.\d+|\d+)(?:[eE][+-]?\d+)?)
  | (?P<id>[A-Za-z_][A-Za-z_0-9]*)
  | (?P<op>[-+*/(){}\[\];:,=])
  | (?P<nl>\n)
  | (?P<ws>[ \t\r]+)
  | (?P<pp>\#[^\n]*)
''', re.X | re.S)


class CParseError(Exception):
    pass


def tokenize(text):
    toks = []
    line = 1
    pos = 0
    n = len(text)
    m = TOK.match
    while pos < n:
        mo = m(text, pos)
        if mo is None:
            raise CParseError('bad character %r at line %d' % (text[pos], line))
        k = mo.lastgroup
        if k == 'nl':
            line += 1
        elif k in ('ws', 'pp'):
            pass
        elif k == 'comment':
            line += mo.group().count('\n')
        else:
            toks.append((k, mo.group(), line))
        pos = mo.end()
    toks.append(('eof', '', line))
    return toks


class Func(object):
    def __init__(self, name, rettype, params, body, line):
        self.name = name
        self.rettype = rettype
        self.params = params      # list of (type, name, is_pointer)
        self.body = body          # list of statements
        self.line = line


# statements:
#  ('switch', varname, [items], line)   items: ('case', int)|('default',)|stmt
#  ('return', exprtoks or None, line)
#  ('assign', arrname, index:int, exprtoks, line)
#  ('break', line)

class Parser(object):
    def __init__(self, text, fname='<c>'):
        self.toks = tokenize(text)
        self.i = 0
        self.fname = fname

    def peek(self):
        return self.toks[self.i]

    def next(self):
        t = self.toks[self.i]
        self.i += 1
        return t

    def expect(self, val):
        t = self.next()
        if t[1] != val:
            raise CParseError('%s:%d: expected %r, got %r' % (self.fname, t[2], val, t[1]))
        return t

    def parse_file(self):
        funcs = {}
        while self.peek()[0] != 'eof':
            t = self.next()
            if t[1] == 'EXPORTIT':
                t = self.next()
            if t[1] not in ('double', 'void', 'int'):
                raise CParseError('%s:%d: unexpected top-level token %r' % (self.fname, t[2], t[1]))
            rettype = t[1]
            name = self.next()
            if name[0] != 'id':
                raise CParseError('%s:%d: function name expected' % (self.fname, name[2]))
            self.expect('(')
            params = []
            while True:
                ty = self.next()
                if ty[1] == ')':
                    break
                if ty[1] not in ('double', 'int'):
                    raise CParseError('%s:%d: parameter type %r' % (self.fname, ty[2], ty[1]))
                ptr = False
                if self.peek()[1] == '*':
                    self.next()
                    ptr = True
                pn = self.next()
                params.append((ty[1], pn[1], ptr))
                sep = self.next()
                if sep[1] == ')':
                    break
                if sep[1] != ',':
                    raise CParseError('%s:%d: , or ) expected' % (self.fname, sep[2]))
            self.expect('{')
            body = self.parse_block()
            funcs[name[1]] = Func(name[1], rettype, params, body, name[2])
        return funcs

    def parse_block(self):
        """statements up to the matching '}' (consumed)"""
        out = []
        while True:
            t = self.peek()
            if t[1] == '}':
                self.next()
                return out
            if t[0] == 'eof':
                raise CParseError('%s: unexpected end of file' % self.fname)
            out.append(self.parse_stmt())

    def parse_stmt(self):
        t = self.next()
        if t[1] == 'switch':
            self.expect('(')
            v = self.next()
            self.expect(')')
            self.expect('{')
            items = []
            while True:
                p = self.peek()
                if p[1] == '}':
                    self.next()
                    break
                if p[1] == 'case':
                    self.next()
                    neg = False
                    if self.peek()[1] == '-':
                        self.next()
                        neg = True
                    num = self.next()
                    if num[0] != 'num':
                        raise CParseError('%s:%d: case label' % (self.fname, num[2]))
                    self.expect(':')
                    items.append(('case', -int(num[1]) if neg else int(num[1])))
                elif p[1] == 'default':
                    self.next()
                    self.expect(':')
                    items.append(('default',))
                else:
                    items.append(self.parse_stmt())
            return ('switch', v[1], items, t[2])
        if t[1] == 'return':
            if self.peek()[1] == ';':
                self.next()
                return ('return', None, t[2])
            e = self.collect_expr()
            return ('return', e, t[2])
        if t[1] == 'break':
            self.expect(';')
            return ('break', t[2])
        if t[0] == 'id' and self.peek()[1] == '[':
            self.next()
            idx = self.next()
            if idx[0] != 'num':
                raise CParseError('%s:%d: constant index expected' % (self.fname, idx[2]))
            self.expect(']')
            self.expect('=')
            e = self.collect_expr()
            return ('assign', t[1], int(idx[1]), e, t[2])
        raise CParseError('%s:%d: unsupported statement starting with %r' % (self.fname, t[2], t[1]))

    def collect_expr(self):
        """token slice up to ';' (consumed) -- evaluated lazily"""
        start = self.i
        while self.toks[self.i][1] != ';':
            if self.toks[self.i][0] == 'eof':
                raise CParseError('%s: unterminated expression' % self.fname)
            self.i += 1
        e = (start, self.i)
        self.i += 1
        return e


class ExprEval(object):
    """evaluates a token slice to a P, given an environment name -> P"""

    def __init__(self, toks, env, fname='<c>'):
        self.toks = toks
        self.env = env
        self.fname = fname

    def eval(self, span):
        self.i, self.end = span
        v = self.expr()
        if self.i != self.end:
            t = self.toks[self.i]
            raise CParseError('%s:%d: trailing tokens in expression (%r)' % (self.fname, t[2], t[1]))
        return v

    def pk(self):
        return self.toks[self.i][1] if self.i < self.end else None

    def expr(self):
        v = self.term()
        while self.pk() in ('+', '-'):
            op = self.toks[self.i][1]
            self.i += 1
            w = self.term()
            v = v + w if op == '+' else v - w
        return v

    def term(self):
        v = self.unary()
        while self.pk() in ('*', '/'):
            op = self.toks[self.i][1]
            self.i += 1
            w = self.unary()
            v = v * w if op == '*' else v / w
        return v

    def unary(self):
        if self.pk() == '-':
            self.i += 1
            return -self.unary()
        if self.pk() == '+':
            self.i += 1
            return self.unary()
        return self.primary()

    def primary(self):
        if self.i >= self.end:
            raise CParseError('%s: unexpected end of expression' % self.fname)
        k, s, line = self.toks[self.i]
        self.i += 1
        if k == 'num':
            if '.' in s or 'e' in s or 'E' in s:
                return P.const(Fraction(float(s)))
            # an integer literal in a double expression
            return P.const(Fraction(float(s)))
        if s == '(':
            v = self.expr()
            if self.pk() != ')':
                raise CParseError('%s:%d: ) expected' % (self.fname, line))
            self.i += 1
            return v
        if k == 'id':
            if s == 'pow':
                if self.pk() != '(':
                    raise CParseError('%s:%d: pow(' % (self.fname, line))
                self.i += 1
                b = self.expr()
                if self.pk() != ',':
                    raise CParseError('%s:%d: pow needs two arguments' % (self.fname, line))
                self.i += 1
                e = self.expr()
                if self.pk() != ')':
                    raise CParseError('%s:%d: ) expected' % (self.fname, line))
                self.i += 1
                if not e.is_const():
                    raise CParseError('%s:%d: symbolic exponent' % (self.fname, line))
                ev = e.const_value()
                if ev.denominator != 1:
                    raise CParseError('%s:%d: non-integer exponent %s' % (self.fname, line, ev))
                return b ** int(ev)
            if s in self.env:
                return self.env[s]
            raise CParseError('%s:%d: unknown identifier %r' % (self.fname, line, s))
        raise CParseError('%s:%d: unexpected token %r' % (self.fname, line, s))


class Returned(Exception):
    def __init__(self, value, line):
        self.value = value
        self.line = line


class _Break(Exception):
    pass


class CFile(object):
    def __init__(self, path):
        self.path = path
        with open(path) as f:
            text = f.read()
        p = Parser(text, path)
        self.funcs = p.parse_file()
        self.toks = p.toks

    def run(self, fname, ints, reals, arrays=None):
        """execute function ``fname`` with concrete ints (dict name->int),
        symbolic reals (dict name -> P) and output arrays (dict name -> dict).
        Returns (return value or None, line of the return, arrays)."""
        f = self.funcs[fname]
        ev = ExprEval(self.toks, reals, self.path)
        arrays = arrays if arrays is not None else {}
        try:
            self._exec(f.body, ints, ev, arrays)
        except Returned as r:
            return r.value, r.line, arrays
        # fell off the end
        return None, None, arrays

    def _exec(self, stmts, ints, ev, arrays):
        for s in stmts:
            k = s[0]
            if k == 'switch':
                val = ints[s[1]]
                items = s[2]
                start = None
                for idx, it in enumerate(items):
                    if it[0] == 'case' and it[1] == val and len(it) == 2:
                        start = idx
                        break
                if start is None:
                    for idx, it in enumerate(items):
                        if it == ('default',):
                            start = idx
                            break
                if start is None:
                    continue
                try:
                    self._exec([it for it in items[start:]
                                if not (it[0] in ('case', 'default') and len(it) <= 2)],
                               ints, ev, arrays)
                except _Break:
                    pass
            elif k == 'return':
                raise Returned(None if s[1] is None else ev.eval(s[1]), s[2])
            elif k == 'assign':
                arrays.setdefault(s[1], {})[s[2]] = ev.eval(s[3])
            elif k == 'break':
                raise _Break()
            else:
                raise CParseError('unknown statement %r' % (k,))
