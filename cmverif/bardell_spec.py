"""Spec functions for C10: Bardell's hierarchical polynomials and their exact
integrals, written from the property statement (defining formula), *not* read
from the repository.

Index convention (measured, DESIGN Appendix A): code index 0..3 are the four
Hermite cubics (multiplied by the flags t1, r1, t2, r2), code index i >= 4 is
Bardell's f_r with r = i + 1.
"""
from fractions import Fraction
from functools import lru_cache
from math import factorial, comb
from .poly import P

NMAX = 30


def dfact(n):
    """double factorial for odd n >= -1"""
    if n in (-1, 0, 1):
        return 1
    if n < -1:
        raise ValueError('double factorial of %d' % n)
    r = 1
    while n > 1:
        r *= n
        n -= 2
    return r


@lru_cache(None)
def f_poly(i):
    """dense coefficient tuple (ascending powers of xi) of function i, unflagged"""
    F = Fraction
    if i == 0:
        return (F(1, 2), F(-3, 4), F(0), F(1, 4))
    if i == 1:
        return (F(1, 8), F(-1, 8), F(-1, 8), F(1, 8))
    if i == 2:
        return (F(1, 2), F(3, 4), F(0), F(-1, 4))
    if i == 3:
        return (F(-1, 8), F(-1, 8), F(1, 8), F(1, 8))
    r = i + 1
    co = [F(0)] * r
    for n in range(0, r // 2 + 1):
        p = r - 2 * n - 1
        if p < 0:
            continue
        co[p] += F((-1) ** n * dfact(2 * r - 2 * n - 7), 2 ** n * factorial(n) * factorial(p))
    return tuple(co)


def pderiv(c, k=1):
    c = list(c)
    for _ in range(k):
        c = [c[j] * j for j in range(1, len(c))]
    return tuple(c)


@lru_cache(None)
def fd(i, order):
    return pderiv(f_poly(i), order)


def pmul(a, b):
    if not a or not b:
        return ()
    out = [Fraction(0)] * (len(a) + len(b) - 1)
    for x, ca in enumerate(a):
        if ca:
            for y, cb in enumerate(b):
                if cb:
                    out[x + y] += ca * cb
    return tuple(out)


def pint(c):
    """antiderivative with zero constant"""
    return (Fraction(0),) + tuple(cj / (j + 1) for j, cj in enumerate(c))


def peval(c, x):
    v = Fraction(0)
    for cj in reversed(c):
        v = v * x + cj
    return v


def flag_name(i, names):
    """names = (t1, r1, t2, r2) atom names; returns the flag atom or None"""
    return names[i] if i < 4 else None


def flagged(p, i, names):
    fl = flag_name(i, names)
    return p * P.atom(fl) if fl is not None else p


def uni_to_P(c, var):
    d = {}
    for j, cj in enumerate(c):
        if cj:
            d[((var, j),) if j else ()] = cj
    return P(d)


# --- the function tables -----------------------------------------------------
def spec_f(i, order, var='xi', names=('xi1t', 'xi1r', 'xi2t', 'xi2r')):
    return flagged(uni_to_P(fd(i, order), var), i, names)


# --- integrals -----------------------------------------------------------------
FAMILIES = {            # name -> (order on first function, order on second)
    'ff': (0, 0), 'ffxi': (0, 1), 'ffxixi': (0, 2),
    'fxifxi': (1, 1), 'fxifxixi': (1, 2), 'fxixifxixi': (2, 2),
    'fxif': (1, 0),
}
XN = ('x1t', 'x1r', 'x2t', 'x2r')
YN = ('y1t', 'y1r', 'y2t', 'y2r')


def _flagmul(p, i, j):
    fi = flag_name(i, XN)
    fj = flag_name(j, YN)
    if fi:
        p = p * P.atom(fi)
    if fj:
        p = p * P.atom(fj)
    return p


@lru_cache(None)
def full_value(fam, i, j):
    a, b = FAMILIES[fam]
    prod = pmul(fd(i, a), fd(j, b))
    Q = pint(prod)
    return peval(Q, Fraction(1)) - peval(Q, Fraction(-1))


def spec_full(fam, i, j):
    return _flagmul(P.const(full_value(fam, i, j)), i, j)


def spec_12(fam, i, j):
    a, b = FAMILIES[fam]
    Q = pint(pmul(fd(i, a), fd(j, b)))
    p = uni_to_P(Q, 'xi2') - uni_to_P(Q, 'xi1')
    return _flagmul(p, i, j)


@lru_cache(None)
def _moment(i, a, t):
    """int_{-1}^{1} xi^t f_i^{(a)}(xi) dxi"""
    c = fd(i, a)
    tot = Fraction(0)
    for p, cp in enumerate(c):
        if cp and (p + t) % 2 == 0:
            tot += cp * Fraction(2, p + t + 1)
    return tot


def spec_c0c1(fam, i, j):
    """int_{-1}^{1} f_i^{(a)}(xi) * f_j^{(b)}(c0 + c1*xi) dxi  (derivative of the
    mapped function taken with respect to its own argument)"""
    a, b = FAMILIES[fam]
    g = fd(j, b)
    d = {}
    for k, gk in enumerate(g):
        if not gk:
            continue
        for t in range(k + 1):
            mom = _moment(i, a, t)
            if not mom:
                continue
            co = gk * comb(k, t) * mom
            mono = []
            if k - t:
                mono.append(('c0', k - t))
            if t:
                mono.append(('c1', t))
            mono = tuple(mono)
            d[mono] = d.get(mono, Fraction(0)) + co
    return _flagmul(P({m: c for m, c in d.items() if c}), i, j)
