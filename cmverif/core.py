"""Common run-time for all checks: obligation ledger, evidence, replay files,
known findings, exit codes (0 held / 1 violation / 2 undecided / 3 checker error).
"""
import json
import os
import re
import sys
import time
import traceback

VERIF = os.path.dirname(os.path.dirname(os.path.abspath(__file__)))
REPO = os.environ.get('CMVERIF_REPO', '/repo')
# evidence describes the tree the registered commands check (/repo); a run on a scratch copy (CMVERIF_REPO=<dir>, used for seeded
# changes and mutation tests) must not overwrite it
EVID = os.path.join(VERIF, 'evidence') if REPO == '/repo' else os.path.join(VERIF, '.build', 'scratch-evidence')
REPLAYS = os.path.join(VERIF, 'replays')
KNOWN = os.path.join(VERIF, 'known_findings.json')

COMMON_ASSUMPTIONS = [
    "A1: float arithmetic is read as real arithmetic and C/Python ints as mathematical integers (round-off and overflow are not modelled)",
    "A2: decimal literals are compared with their exact counterparts under a relative tolerance of 5e-14 per normal-form coefficient",
    "A5: the .pyx -> Python-ast extraction of cmverif.pyxfront (cdef lines, C types, nogil, prange->range) preserves the sequential semantics of the kernel bodies",
]


def slug(s):
    return re.sub(r'[^A-Za-z0-9_.-]+', '_', s)[:120]


class Undecided(Exception):
    pass


class CheckerError(Exception):
    pass


class Ledger(object):
    def __init__(self, pid, tier=None, seed=None, level='proof'):
        self.pid = pid
        self.tier = tier or os.environ.get('VERIF_TIER', 'quick')
        if self.tier not in ('quick', 'thorough'):
            self.tier = 'quick'
        try:
            self.seed = int(seed if seed is not None else os.environ.get('VERIF_SEED', '0'))
        except ValueError:
            self.seed = 0
        self.level = level
        self.t0 = time.time()
        self.obls = []          # dicts
        self.by_func = {}
        self.failed = []
        self.undecided = []
        self.samples = []
        self.assumptions = list(COMMON_ASSUMPTIONS)
        self.trusted = []
        self.bounded = []
        self.functions = {}     # "file:func" -> line
        self.solver_s = {}
        self.backends = {}
        self.extra = {}
        self.errors = []
        self.canaries = []
        # stale replay files of earlier runs of this property are removed
        try:
            for fn in os.listdir(REPLAYS):
                if fn.startswith(pid + '-') and fn.endswith('.json'):
                    os.remove(os.path.join(REPLAYS, fn))
        except OSError:
            pass
        with open(KNOWN) as f:
            kf = json.load(f)
        self.known = [k for k in kf.get('findings', []) if k['property'] == pid]
        self.known_hit = set()

    # ------------------------------------------------------------------
    def function(self, where, line=None):
        self.functions[where] = line

    def assume(self, text):
        if text not in self.assumptions:
            self.assumptions.append(text)

    def trust(self, text):
        if text not in self.trusted:
            self.trusted.append(text)

    def bounded_item(self, text):
        if text not in self.bounded:
            self.bounded.append(text)

    def solver_time(self, backend, dt):
        self.solver_s[backend] = self.solver_s.get(backend, 0.0) + dt

    def attr_reads(self, reads):
        acc = self.extra.setdefault('_attr_reads', {})
        for k, kinds in reads.items():
            acc.setdefault(k, set()).update(kinds)

    def guard_stats(self, checked, skipped):
        g = self.extra.setdefault('normal_form_numeric_guard', {'equalities_re-evaluated_numerically': 0, 'evaluations_skipped': 0})
        g['equalities_re-evaluated_numerically'] += checked
        g['evaluations_skipped'] += skipped

    def ok(self, name, func, backend='normal-form', sample=None):
        self.obls.append((name, func, 'discharged', backend))
        self.backends[backend] = self.backends.get(backend, 0) + 1
        self.by_func[func] = self.by_func.get(func, 0) + 1
        if sample is not None and len(self.samples) < 6:
            self.samples.append({'obligation': name, 'function': func, 'backend': backend, 'detail': sample})

    def fail(self, name, func, detail, backend='normal-form', replay=None, signature=None):
        """a refuted obligation.  replay: dict with at least 'reproduced' (bool)
        describing the run of the counterexample on the real code."""
        self.obls.append((name, func, 'failed', backend))
        self.by_func[func] = self.by_func.get(func, 0) + 1
        self.failed.append({'obligation': name, 'function': func, 'detail': detail,
                            'backend': backend, 'replay': replay, 'signature': signature})

    def undecide(self, name, func, why, backend='z3'):
        self.obls.append((name, func, 'undecided', backend))
        self.by_func[func] = self.by_func.get(func, 0) + 1
        self.undecided.append({'obligation': name, 'function': func, 'why': why})

    def canary(self, name, refuted):
        """a deliberately false obligation; must be refuted by the engine"""
        self.canaries.append((name, bool(refuted)))

    def error(self, text):
        self.errors.append(text)

    # ------------------------------------------------------------------
    def _known_match(self, f):
        for k in self.known:
            if k['obligation'] != f['obligation']:
                continue
            if k.get('signature') is not None and k.get('signature') != f.get('signature'):
                continue
            return k
        return None

    def finish(self, checker_cmd=None, rule=None):
        os.makedirs(EVID, exist_ok=True)
        os.makedirs(REPLAYS, exist_ok=True)
        lines = []
        new_viol = []
        known_lines = []
        for f in self.failed:
            k = self._known_match(f)
            if k is not None:
                self.known_hit.add(k['obligation'])
                known_lines.append('KNOWN-FINDING: property=%s %s [%s]' % (self.pid, k['what'], f['obligation']))
            else:
                new_viol.append(f)
        # replay files
        for f in new_viol:
            path = os.path.join(REPLAYS, '%s-%s.json' % (self.pid, slug(f['obligation'])))
            with open(path, 'w') as g:
                json.dump({'property': self.pid, 'obligation': f['obligation'],
                           'function': f['function'], 'backend': f['backend'],
                           'verifier_output': f['detail'], 'signature': f.get('signature'),
                           'replay': f['replay']}, g, indent=1, default=str)
            rep = f['replay'] or {}
            tail = '' if rep.get('reproduced') else ' no-failing-input-found'
            lines.append('VIOLATION property=%s replay=%s%s' % (self.pid, path, tail))
        bad_canary = [n for n, r in self.canaries if not r]
        n_obl = len(self.obls)
        n_dis = sum(1 for o in self.obls if o[2] == 'discharged')
        n_known = len(self.failed) - len(new_viol)
        wall = time.time() - self.t0
        status = 0
        if self.errors or bad_canary or n_obl == 0:
            status = 3
        elif new_viol:
            status = 1
        elif self.undecided:
            status = 2
        cov = {
            # obligations listed as known findings are reported separately: they are
            # refuted (genuine defects recorded in known_findings.json), not discharged
            'obligations': n_dis + len(self.undecided) + len(new_viol),
            'discharged': n_dis,
            'refuted_known_findings': n_known,
            'refuted_new': len(new_viol),
            'undecided': len(self.undecided),
            'checker_cmd': checker_cmd or ' '.join(sys.argv),
            'trusted_base': self.trusted,
            'functions_under_contract': self.functions,
            'obligations_per_function': self.by_func,
            'discharged_by_backend': self.backends,
            'solver_seconds': {k: round(v, 3) for k, v in self.solver_s.items()},
            'bounded_stand_ins_not_counted_as_proved': self.bounded,
            'canaries_refuted': [n for n, r in self.canaries if r],
            'samples': self.samples or [{'obligation': o[0], 'function': o[1], 'backend': o[3]} for o in self.obls[:3]],
            'evaluations': n_obl,
            'distinct_nontrivial': len(set(o[0] for o in self.obls)),
            'rule': rule or 'one obligation per (function under contract, clause, case); distinct by obligation name',
        }
        try:
            from . import pysym as _ps
            never = {q: sorted(k for k, v in d.items() if not v) for q, d in _ps.PARAM_COVER.items()}
            never = {q: v for q, v in never.items() if v and not q.startswith('compmech.logger')}
            if never:
                cov['optional_parameters_only_seen_at_their_default'] = never
        except Exception:
            pass
        ar = self.extra.pop('_attr_reads', None)
        if ar:
            single = {k: sorted(v)[0] for k, v in sorted(ar.items()) if len(v) == 1 and sorted(v)[0] not in ('<symbolic>', '<object>')}
            cov['attributes_read_with_one_constant_value_in_every_harness'] = single
        cov.update(self.extra)
        ev = {'property_id': self.pid, 'tier': self.tier, 'seed': self.seed, 'level': self.level,
              'coverage': cov, 'assumptions': self.assumptions, 'wall_s': round(wall, 3),
              'violations': len(new_viol),
              'known_findings_hit': sorted(self.known_hit),
              'undecided': self.undecided[:20], 'errors': self.errors[:20], 'exit_status': status}
        with open(os.path.join(EVID, '%s.json' % self.pid), 'w') as g:
            json.dump(ev, g, indent=1, default=str)
        for l in known_lines:
            print(l)
        for l in lines:
            print(l)
        for u in self.undecided[:10]:
            print('UNDECIDED property=%s obligation=%s: %s' % (self.pid, u['obligation'], u['why']))
        for e in self.errors[:10]:
            print('CHECKER-ERROR property=%s %s' % (self.pid, e))
        if bad_canary:
            print('CHECKER-ERROR property=%s canaries verified although false: %s' % (self.pid, bad_canary))
        if n_obl == 0:
            print('CHECKER-ERROR property=%s zero obligations generated' % self.pid)
        print('%s: %d obligations, %d discharged, %d known findings, %d new violations, %d undecided, %.1fs -> exit %d'
              % (self.pid, n_obl, n_dis, n_known, len(new_viol), len(self.undecided), wall, status))
        return status


def run_check(pid, body, level='proof'):
    """wrapper used by every check module: body(ledger) registers obligations"""
    led = Ledger(pid, level=level)
    try:
        body(led)
        from . import numguard, pysym
        led.guard_stats(numguard.STATS['checked'], numguard.STATS['skipped'])
        led.attr_reads({k: set(v) for k, v in pysym.ATTR_READS.items()})
    except Undecided as e:
        led.undecide('engine', 'cmverif', str(e))
    except Exception:
        led.error(traceback.format_exc()[-1500:])
    return led.finish()
