"""Generic-entry model of scipy COO matrices for code that edits the index arrays directly (ConeCyl.exclude_dofs_matrix).

A COO matrix of symbolic size is represented by ONE generic stored entry (row R, col C, value V): every element-wise numpy
operation of the code acts on that entry; a selection (np.where / np.take) forks the path into "the entry is kept" and "the
entry is dropped".  Trusted semantics (numpy / scipy, listed in the evidence): element-wise comparison and masked in-place
arithmetic, np.where(mask)[0] + np.take as a selection applied alike to the three arrays, toarray() sums the stored entries,
np.delete removes the listed rows / columns of a dense array.
"""
from .poly import P, normal
from .core import CheckerError
from . import pysym
from .pysym import Cond, compare


class GArr(object):
    """one of the arrays row / col / data of a COO matrix, seen through its generic element"""
    def __init__(self, expr, coo=None):
        self.expr = expr
        self.coo = coo

    def sym_compare(self, interp, op, other):
        other = pysym._unwrap0(other)
        try:
            import numpy as np
            if isinstance(other, np.integer):
                other = int(other)
        except ImportError:
            pass
        if not isinstance(other, (int, P)):
            raise CheckerError('comparison of a COO index array with %r' % (other,))
        return Mask(compare(op, self.expr, other), self)

    def sym_augstore(self, interp, k, op, v, node):
        # arr[mask] -= 1
        if not isinstance(k, Mask) or k.src.coo is not self.coo:
            raise CheckerError('line %d: masked update with a foreign mask' % node.lineno)
        v = pysym._unwrap0(v)
        c = k.cond
        hit = interp.truth(c) if isinstance(c, Cond) else bool(c)
        if hit:
            if op == 'Sub':
                self.expr = self.expr - v
            elif op == 'Add':
                self.expr = self.expr + v
            else:
                raise CheckerError('line %d: masked %s on an index array' % (node.lineno, op))

    def sym_getattr(self, interp, name):
        raise CheckerError('attribute %s of a COO index array' % name)


class Mask(object):
    shape = (None,)     # array-like: ex_Compare returns it as is

    def __init__(self, cond, src):
        self.cond, self.src = cond, src

    def __and__(self, o):
        if not isinstance(o, Mask):
            return NotImplemented
        a, b = self.cond, o.cond
        if isinstance(a, bool):
            return Mask(b if a else False, self.src)
        if isinstance(b, bool):
            return Mask(a if b else False, self.src)
        return Mask(Cond('and', a, b), self.src)


class IndexSel(object):
    def __init__(self, mask):
        self.mask = mask


class SymCOO(object):
    def __init__(self, row, col, data, shape, alive=True, name='coo'):
        self.name = name
        self.row, self.col, self.data = GArr(row, self), GArr(col, self), GArr(data, self)
        self._shape = tuple(shape)
        self.alive = alive          # False: the generic entry has been removed from this matrix
        self.empty = row is None

    def copy(self):
        c = SymCOO(self.row.expr, self.col.expr, self.data.expr, self._shape, self.alive, self.name + "'")
        c.empty = self.empty
        return c

    def sym_getattr(self, interp, name):
        if name in ('row', 'col', 'data'):
            return getattr(self, name)
        if name in ('shape', '_shape'):
            return self._shape
        if name == 'copy':
            return self.copy
        if name == 'toarray':
            return lambda: DenseOf(self)
        raise CheckerError('attribute %s of a COO matrix needs a contract' % name)

    def sym_setattr(self, interp, name, v):
        if name in ('row', 'col', 'data'):
            if isinstance(v, Taken):
                # the three arrays must be taken with the same selection: the entry survives iff the selection keeps it
                self.alive = bool(v.keep)
                g = GArr(v.expr, self)
                setattr(self, name, g)
                self.empty = False
                self.taken = getattr(self, 'taken', {})
                self.taken[name] = v.sel_id
                return
            raise CheckerError('COO.%s assigned something that is not a selection of an index array' % name)
        if name == '_shape':
            self._shape = tuple(v)
            return
        raise CheckerError('setattr COO.%s' % name)


class Taken(object):
    def __init__(self, expr, keep, sel_id, src):
        self.expr, self.keep, self.sel_id, self.src = expr, keep, sel_id, src


class DenseOf(object):
    def __init__(self, coo):
        self.coo = coo
        self.deleted = []

    def sym_delete(self, idx, axis):
        d = DenseOf(self.coo)
        d.deleted = self.deleted + [(tuple(idx), axis)]
        return d


class COOType(object):
    """stands for scipy.sparse.coo_matrix / csr_matrix in the interpreted code"""
    def __init__(self, kind):
        self.kind = kind

    def sym_isinstance(self, interp, o):
        return isinstance(o, SymCOO) and self.kind == 'coo'

    def __call__(self, *args, **kwargs):
        return self.sym_call(None, list(args), kwargs)

    def sym_call(self, interp, args, kwargs):
        x = args[0]
        if isinstance(x, SymCOO):
            return x if self.kind == 'csr' else x.copy()
        shp = getattr(x, 'shape', None)
        if shp is not None and getattr(x, 'fill', 'x') is None:
            # np.zeros((n, k)) of symbolic shape: an empty matrix
            return SymCOO(None, None, None, shp, alive=False, name='empty')
        raise CheckerError('coo_matrix(%r) needs a contract' % (x,))


def install(it):
    coo, csr = COOType('coo'), COOType('csr')
    it.contracts['scipy.sparse.coo_matrix'] = lambda itp, a, kw: coo.sym_call(itp, a, kw)
    it.contracts['scipy.sparse.csr_matrix'] = lambda itp, a, kw: csr.sym_call(itp, a, kw)
    it.shims['scipy.sparse.coo_matrix'] = coo
    it.shims['scipy.sparse.csr_matrix'] = csr
    np_ = it.np
    import numpy as _np

    def where(m):
        if isinstance(m, Mask):
            return (IndexSel(m),)
        raise CheckerError('np.where on %r' % (m,))

    def take(arr, sel):
        if not (isinstance(arr, GArr) and isinstance(sel, IndexSel)):
            raise CheckerError('np.take on %r' % (arr,))
        if sel.mask.src.coo is not arr.coo:
            raise CheckerError('np.take: selection computed on another matrix')
        c = sel.mask.cond
        keep = it.truth(c) if isinstance(c, Cond) else bool(c)
        return Taken(arr.expr, keep and arr.coo.alive, id(sel), arr.coo)

    def sort(x):
        return _np.sort(_np.array([pysym._toint(v) for v in x]))
    old_delete = np_.delete

    def delete(arr, obj, axis=None):
        if isinstance(arr, DenseOf):
            return arr.sym_delete([pysym._toint(i) for i in obj], axis)
        return old_delete(arr, obj, axis)
    np_.where, np_.take, np_.sort, np_.delete = where, take, sort, delete
    return coo
