#!/usr/bin/env python3
"""python3 tools/store_seed.py <name> <property> <worktree> "<needs>" "<caught by>" """
import json, os, shutil, sys
name, prop, wt, needs, caught = sys.argv[1:6]
d = os.path.join(os.path.dirname(os.path.dirname(os.path.abspath(__file__))), 'seeded', name)
os.makedirs(d, exist_ok=True)
for f in ('patch.diff', 'demo.py', 'notes.md'):
    shutil.copy(os.path.join(wt, '_seed', f), os.path.join(d, f))
meta = {'property': prop, 'needs_to_manifest': needs, 'detected_by': caught,
        'what_was_run': ['demo.py in the scratch worktree with the change (FAIL) and with the package sources stashed (PASS)',
                         'full test suite in the scratch worktree with the change applied: 34 passed (+ the pre-existing collection error)',
                         'git -C /repo apply patch.diff; ./check %s quick; git -C /repo checkout -- .' % prop]}
json.dump(meta, open(os.path.join(d, 'meta.json'), 'w'), indent=1)
print('stored', d)
