#!/usr/bin/env python3
"""regenerates MANIFEST.json from the registry below (run after adding a check)"""
import json, os
HERE = os.path.dirname(os.path.dirname(os.path.abspath(__file__)))
props = [json.loads(l) for l in open(os.path.join(HERE, 'properties.jsonl'))]

KERNEL_NOTE = ('real instead of float arithmetic; decimal literals within 5e-14; table functions used through their C10 contracts; '
               'scipy coo/csr duplicate-summing assumed (A4); make_symmetric / make_skew_symmetric / finalize_symmetric_matrix are proved for every COO input in C02 / C19 '
               '(generic stored entry, cmverif/segcoo.py; numpy mask selection / concatenate / where / fancy assignment trusted); the .pyx -> ast extraction (A5); the prebuilt '
               '.so cannot be rebuilt here (no Cython) so the verdict is about the source tree, binary replays are attached where they reproduce')

EIG_NOTE = ('the contracts of scipy eigsh/eigs/eigh/eig are ASSUMED (stated in cmverif/eigctx.py; the one of sparse.remove_null_cols used by the wrapper checks is '
            'proved from its source on abstract matrices: X[U,:][:,U] with U = unique(columns of the non-zeros of the first matrix)): eigenpairs of the pair '
            'they are given, in the requested count, 0<k<n required, numerical failure possible while null columns are present; solver precision, ARPACK '
            'ordering, positivity/ascending order of computed values and sparse/dense agreement are not decidable by contracts and are not claimed')

CHECKS = {
 'C14': dict(
    category='proof',
    text=('relational obligations between the real kernel texts (values extracted by the same symbolic execution as C02-C04): the w-only plate entries equal the (w,w) '
          'block of the full plate (k0, kG0, kM); every monomial of cylinder minus plate carries a negative power of r; the conical kernel at sin=0, cos=1 equals the '
          'cylinder integrand on each section and the sub-interval tables telescope to the full-interval ones (exhaustive lemma); the numerical kernel fkL_num at '
          'NLgeom=0 equals weight times the analytic kernel value under the homomorphism "integral atom -> product of function values at the point"; the plate energy '
          'Hessian is invariant under the x<->y exchange map; every monomial of the stiffness / geometric / mass entries is homogeneous of the weighted degrees that '
          'give the similarity laws.'),
    design_ref='DESIGN.md section 4 (C14)',
    note=KERNEL_NOTE + '; eigenvalue consequences rest on the eigen-solver contracts (C05/C06) and the scaling argument, not re-proved; "tends to the plate" is read as O(1/r) entry-wise',
    technique='relational contracts between kernel values and spec instances; exact normal form; exhaustive table lemma'),
 'C15': dict(
    category='proof',
    text=('premises of the Rayleigh-Ritz upper-bound argument: kernel entries are independent of the series orders (nested trial spaces), the index map is injective and the '
          'smaller matrices are principal sub-matrices (z3, exhaustive over m<=30), K/KG/M are the exact Hessians (C02-C04), and the simply supported trial functions '
          'vanish on the boundary (exact Bardell polynomials); the ply stiffness is the tensor rotation of the plane-stress stiffness of the GIVEN constants (real read_laminaprop + '
          'Lamina.rebuild, as in C01) and a forced-orthotropic plate is integrated without its coupling terms by every kernel; the monotone upper-bound conclusion is by the cited min-max theorem.'),
    design_ref='DESIGN.md section 4 (C15)',
    note='the conclusion itself is NOT machine-checked (cited theorem); the limit clause (convergence to the closed-form values) and solver precision are not decidable by contracts and are not claimed',
    technique='contracts on kernels (nestedness) + z3 LIA lemmas; cited spectral theorem'),
 'C08': dict(
    category='proof',
    text=('calc_fint, fkL_num and fkG_num of the flat and cylindrical numerical kernels are extracted and executed symbolically at a generic integration point '
          '(symbolic point, weight, quadrature orders, series orders, term indices; state sums over the series as canonical sum terms; uniform and per-point '
          'laminate): the internal-force entry is proved equal to the formal derivative dU/dc_A of the energy density U = w (ab/4) 1/2 eps^T F eps with the '
          'quadratic slope terms, the sum of the kL and kG entries to d2U/dc_A dc_B (hence symmetric and the exact Jacobian for every state and every rule), '
          'and the internal force vanishes for zero state sums; Panel.calc_kT / calc_fint pass the caller state, the laminate of the definition, offsets and '
          'quadrature orders; PanelAssembly.calc_kT / calc_fint are the sums of the panels\' own terms at their ranges plus the connection matrix (times the state), 1..3 panels (1 fixed defect: calc_fint of assemblies raised TypeError).'),
    design_ref='DESIGN.md section 4 (C08)',
    note=KERNEL_NOTE + '; integrand-level: exactness of Gauss quadrature for the quartic integrand is the C10 contract; reduction to K0*c for small states follows from the polynomial identity, not separately stated',
    technique='contracts + symbolic execution (generic-iteration schema with accumulators); formal differentiation of the spec; exact normal form'),
 'C20': dict(
    category='proof',
    text=('history independence as frame/effect obligations over the real Panel methods executed symbolically (down to the kernel and field contracts): '
          'each of 10 public evaluation methods can be requested first on a fresh object; for every ordered pair (A,B) the structural result of B after A equals '
          'the result of B alone; after a definition attribute (a, offset, stack, plyt, Nxx, r) is changed between two calls the second result equals that of a '
          'fresh object with the new value; caller arrays are read-only in the executor (a write is a frame violation); Panel.lb/freq are executed with the matrix '
          'methods replaced by contracts that tag each matrix with the definition it was computed from, so the eigenproblem handed to the solver is proved '
          'to be that of the current definition in every tested history.  ConeCyl (calc_k0, calc_fext, _calc_linear_matrices, calc_kT, calc_fint) is put through '
          'the same three clauses with kernel stubs that carry their arguments (attributes r2, H, alphadeg, plyt, Fc, P, thetaTdeg, betadeg); Panel.calc_kA also with the flow given by Mach number, speed and density.  PanelAssembly (calc_k0, calc_kG0, '
          'calc_kM, get_k0_conn with and without finalize) and StiffPanelBay (calc_k0, calc_kG0, calc_kM, calc_kA, get_size; skin cut in two, one 2-D blade stiffener '
          'built by the real add_* methods) are put through the first-request and order clauses for all ordered pairs (get_k0_conn also with an explicit other connectivity) '
          'and through the change clause (panel laminate, interface position / skin and flange laminate, density).'),
    design_ref='DESIGN.md section 4 (C20)',
    note=('histories of length <= 3 over the listed methods (bounded in length, symbolic in all data); kernels/field functions assumed pure (thread-count independence of the compiled field wrappers is proved in C11); '
          'plotting is not covered; 26 known findings (ConeCyl keeps derived data and cached matrices of the first evaluation), 6 fixed defects'),
    technique='effect contracts + symbolic execution; structural comparison of result terms'),
 'C12': dict(
    category='proof',
    text=('calc_kt_kr is executed symbolically for the five connection types (laminates through the C01 contract): symmetric in the two panels and homogeneous of degree 1 '
          'in the laminate stiffnesses; PanelAssembly.get_k0_conn is executed for the five connection kinds in both assembly orders: kernel dispatch, penalty constants, '
          'interface arguments, block placement, and the obligation that the p1-p2 block survives the symmetrisation; TStiff2D.__init__/_rebuild/calc_k0 are executed '
          'symbolically: placement of base and flange, the three skin-base blocks (sub-interval, offset distance, edge flags, sizes) and the base-flange blocks with '
          'the interface lines taken in each panel\'s own coordinate.  The fifteen connection kernels fkC{SSxcte,SSycte,BFxcte,BFycte,SB}{11,12,22} are '
          'extracted from the .pyx text and executed symbolically (symbolic series indices, orders, edge flags, sizes, interface positions, kt, kr > 0): every '
          'emitted value equals the Hessian entry of kt/2 Int|jump|^2 + kr/2 Int(rotation jump)^2 written with the two panels\' own series on the interface, the three '
          'blocks of a kind come from ONE such quadratic form (hence positive semi-definite, zero without jump, linear in kt, kr), 11/22 blocks emit the whole upper '
          'triangle, 12 blocks the whole block, array capacity and divisions are discharged.'),
    design_ref='DESIGN.md section 4 (C12), 10.7',
    note=('interface geometry is a stated precondition of the kernels (the two panels share the interface length; the kernels integrate over panel 1\'s '
          'interface); the orientation of the flange frame / side of the offset is existential (one sign for all blocks of a kind), the property fixes neither; '
          'the face-to-face kind has no rotation penalty (its kernel takes no kr); 6 known findings (coupling block lost when p1 comes after p2)'),
    technique='contracts + symbolic execution of the Python ast; exact normal form'),
 'C16': dict(
    category='proof',
    text=('fk0, fk0_cyl, fkG0, fkG0_cyl of the 17 registered classical / isotropic / first-order-shear linear shell modules are extracted from the .pyx text and '
          'executed symbolically (generic series indices, generic meridian section, symbolic ABD/ABDE, geometry and loads).  Classical models: for every pair of '
          'non-prescribed amplitudes and every index case the emitted sum is proved to be the section integral of e_A^T F e_B r with e_A the linear strain vector read '
          'off the model\'s own cfstrain_donnell / cfstrain_sanders (d/dxb of the closed form == integrand, value 0 at xb = xa; theta integral by orthogonality), which '
          'also gives symmetry and positive semi-definiteness (Gram form).  fsdt_donnell_* and clpt_donnell_bcn: Gram representation with the Donnell operator applied '
          'to the model\'s own cfuvw field.  Every model: fk0_cyl / fkG0_cyl equal the cone kernels at alpha = 0 summed over the sections; fkG0 entries are homogeneous '
          'linear forms in (Fc, P, T); iso_ kernels equal the general kernels with the isotropic ABD of ConeCyl._rebuild; fk0edges is the Hessian of the elastic edge energy '
          '(sum over edges and restrained fields of k int f_A f_B r dtheta, fields from cfuvw), a sum of Gram matrices for k >= 0; no division by zero under the guards; '
          'no read of a local before its assignment in the iteration.  ConeCyl._calc_linear_matrices / modelDB.get_linear_matrices are executed symbolically for 17 models x '
          'cone/cylinder x combined load case x F_reuse: kernel dispatch, every argument by the parameter name of the real .pyx signature, constitutive matrix, '
          'Fc from Nxxtop, symmetrisation, partition.'),
    design_ref='DESIGN.md section 10.6 (C16)',
    note=('cone matrices: stated for the kernel\'s own quadrature (radius frozen per meridian section; exact for cylinders); fsdt_sanders_bcn has no strain function '
          'and no Gram representation at hand: its positive semi-definiteness is not decided; ConeCyl.lb and ConeCyl.eigen are under contract in C05, ConeCyl.static (delegation to Analysis.static, C09) is not; '
          'the geier1997/shadmehri2012 modules are not covered; 60 known findings in the two fsdt bcn modules; the compiled extensions cannot be rebuilt '
          'here, so numeric replays show the installed binary'),
    technique='contracts + symbolic execution of the extracted .pyx (generic-iteration schema, local path exploration); trigonometric normal form; formal differentiation; z3 for index cases and divisors'),
 'C17': dict(
    category='proof',
    text=('cffint, cfk0L, cfkG, cfkLL of the 12 shell models that advertise non-linear statics (clpt_donnell_bc1-4, clpt_sanders_bc1-4, iso_clpt_donnell_bc2/3, '
          'fsdt_donnell_bc1/bcn) are extracted from the .pyx text and executed symbolically at one generic integration point (symbolic point, weight, state, '
          'imperfection slopes, series orders; scratch buffers as functions of their index); the counters of the integrand functions are tied to rows/columns of '
          'calc_k0L/calc_kG/calc_kLL by equality of their control skeletons.  With U = 1/2 eps^T F eps r, eps = E0(c) + EL(slopes): cffint[A] == alpha (dU/dc_A - e_A^T F E0 r) '
          'for every amplitude, and (k0L + k0L^T + sym kLL + sym kG)[A,B] == alpha (d2U/dc_A dc_B - e_A^T F e_B r) for every pair and index case, hence the tangent '
          'is symmetric and the Jacobian of k0 c + fint_NL for every rule and grid; fint_NL vanishes at c = 0 and is at least quadratic for the perfect shell.  '
          'Premises proved on the commons text: cfwx/cfwt/cfv are the state sums of the cfuvw field, cfstrain_* is E0 + EL, cfN = F eps (membrane rows).  '
          'ConeCyl._calc_NL_matrices / calc_fint compose and pass the arguments as assumed (symbolic execution, 4 model kinds); integratev hands every point to '
          'the integrand exactly once for every thread count (z3) and both point generators return betas = 1; the caller\'s amplitude vector is not modified (reduced and complete '
          'vectors); the kuu block handed back by calc_kT is K[free, free] for every admissible set of prescribed amplitudes (exclude_dofs_matrix, as in C18).'),
    design_ref='DESIGN.md section 10.6 (C17), 10.28, 10.30',
    note=('integrand level: the statement about the integrals follows because both sides use the same points and weights; floating-point summation order across '
          'threads is not modelled (A1); convergence of Newton iterations is not part of the property; 48 known findings: cffint and cfstrain_donnell of the two fsdt '
          'models use another amplitude layout than the matrices; numeric replays (kT against central differences of calc_fint) run on the installed binary'),
    technique='contracts + symbolic execution of the extracted .pyx (generic-iteration schema with accumulators, canonical sum atoms); formal differentiation of the energy; skeleton equality for counters; z3 LIA'),
 'C18': dict(
    category='proof',
    text=('ConeCyl._rebuild is executed symbolically for the five admissible input subsets (cone and cylinder): H = L cos(alpha), r1 = r2 + L sin(alpha), inputs '
          'preserved, trigonometric constants, Nxxtop[0] = Fc/(2 pi r2 cos(alpha)).  ConeCyl.calc_fext is executed symbolically with the real fg of the model\'s commons '
          'module for 17 models x {pdC} x {pdT}: every entry equals the virtual work of point forces, harmonic axial line load, pressure and torque on the basis '
          'functions that cfuvw of the same module reports, incremental parts times the load factor, prescribed shortening/twist as -ck*Kuk[:,k]; the amplitude layout of '
          'cfuvw/fg equals modelDB.  Both for the instance (2,2,2) with the real fg and numpy\'s own delete/dot on symbolic entries, and for EVERY series order '
          '(m1, m2, n2 symbolic): vectors over the amplitudes in decoded coordinates (family, series indices, p), the axial-load and pressure loops executed once '
          'generically with the obligation that they cover the whole index range of their family, fg through a contract that is itself proved from the .pyx text '
          '(every store g[d, column] of cfgss is component d of the cfuvw basis function of that amplitude).  calc_full_c is executed symbolically for all admissible '
          'sets of prescribed amplitudes, for two concrete lengths and for vectors of symbolic length (explicit leading entries + generic tail position).  '
          'exclude_dofs_matrix is executed symbolically '
          'on a COO matrix of symbolic size seen through one generic stored entry (all four admissible sets): kuu == K[free, free] entry by entry (position by z3), '
          'kuk == K[free, 0:3].'),
    design_ref='DESIGN.md section 10.6 (C18), 10.12',
    note=('calc_fext / calc_full_c for every series order rest on numpy semantics stated as assumptions (zeros, delete of leading amplitudes, +=, row vector . matrix, '
          'insert inside the explicit prefix) and on tLArad = 0; exclude_dofs_matrix: proved under the numpy/scipy semantics listed as trusted (element-wise ops, where/take selection, toarray, delete), plus a bounded run-time stand-in on random COO matrices; ConeCyl.static itself rests on C04/C09 '
          '(Analysis.static, solve); the coupling of the always-prescribed third amplitude with the j2 = 1 terms is absent from the kernels (k0uk[:,2] == 0), so no '
          'right-hand-side term exists for a non-zero load-asymmetry amplitude: recorded as an observation in DESIGN, not decided here'),
    technique='contracts + symbolic execution of the Python ast and of the extracted .pyx field functions; exact normal form; symbolic integration by parts; bounded stand-ins labelled'),
 'C07': dict(
    category='proof',
    text=('Panel.add_force/calc_fext and PanelAssembly.calc_fext are executed symbolically (real constructors, symbolic positions/components/load factor): every force '
          'contributes [fx,fy,fz].g(x_f,y_f) of its own panel at that panel\'s range, incrementable forces exactly once times the load factor; the fg/cfg kernel is '
          'proved to write g[d,3(jm+i)+d] = f_i g_j, which with the C11 series contract makes f.c the virtual work; sparse.solve and analysis.static are executed over '
          'abstract arrays for all sizes (K restricted to its non-null columns, f restricted likewise, solution scattered into zeros); StiffPanelBay.calc_fext is '
          'executed symbolically for 0..2 skin forces and for bays with 1..3 two-dimensional stiffeners (one force per component): the load vector is the concatenation '
          'skin | blade flanges | T base, T flange in the order the matrices use, each part [fx,fy,fz].g(x_f,y_f) of its own component (1 fixed defect); Panel.static is executed end to end (real constructor, real Analysis.static): '
          'the system solved is the result of the panel\'s calc_k0() against the result of its calc_fext().'),
    design_ref='DESIGN.md section 4 (C07), 10.29',
    note=('spsolve through an assumed contract (remove_null_cols proved from its source on abstract matrices, the real solve additionally by the bounded run-time stand-in); numbers of panels and '
          'forces bounded (1..2 panels, 0..2 forces of each kind); linearity follows from the structure of the result, not separately proved; bays: 1..3 stiffeners in 4 orders of kinds'),
    technique='contracts + symbolic execution (object arrays, abstract arrays); exact normal form; bounded stand-in for sparse.py'),
 'C11': dict(
    category='proof',
    text=('cfuvw, cfwx, cfwy and cfstrain are extracted from clt_bardell_field.pyx and executed symbolically for a generic evaluation point and symbolic '
          'series orders: the accumulated values are proved equal to the Ritz series / the Donnell relations (sums over the series as canonical sum terms, '
          'linear and quadratic parts, flat and cylindrical branch); Panel.uvw/strain/stress and PanelAssembly.uvw/strain/stress are executed symbolically from '
          'the real source over point-set shapes and option combinations: every reported entry is the field of the requested point, in order and shape, '
          'computed from the caller\'s amplitude vector (for assemblies: the panel\'s own slice) and the panel definition, with NLterms forwarded, and the '
          'stress resultants are the laminate matrix times exactly those strains.  The wrappers fuvw / fstrain of both field modules (padding to a multiple of '
          'num_cores, reshape, one row per prange iteration, sign of the rotations, flattening, [:size]) are executed symbolically with arrays as index functions '
          'for EVERY number of points (size = q*num_cores + r, q, r, num_cores symbolic, both padding branches): each result has exactly size entries and entry k '
          'is the point kernel\'s value at (xs[k], ys[k]) -- an expression without num_cores or k\'s position, hence independent of thread count, point count and '
          'order; each iteration writes only the row of its own loop index; cfw/cfwx/cfwy of the w-only module are proved like the main kernels.  StiffPanelBay.uvw_skin / '
          'uvw_stiffener are executed symbolically for 1..3 stiffeners in 8 orders of kinds: each component is evaluated with its own range of the bay\'s amplitude '
          'vector (the range the matrices use) and its own attributes (1 fixed defect).  Kernel precondition derived from the extracted source: a strided '
          'memoryview parameter whose address is taken (&c[0]) must be C-contiguous; amplitude vectors given to public methods have arbitrary layout, '
          'np.ascontiguousarray / np.array establish contiguity, np.asarray does not.'),
    design_ref='DESIGN.md section 4 (C11), 10.8, 10.20',
    note=('real arithmetic; numpy hstack/reshape/ravel/slice on C-contiguous arrays modelled as row-major index maps (assumption), in the Python layer they run '
          'natively on symbolic object arrays (A4); prange(n) is taken to visit every index once (OpenMP scheduling itself is outside the contract; the frame '
          'obligation makes the order irrelevant); Python-layer point sets are bounded (3 and 6 points); '
          '3 fixed defects (NLterms not forwarded by Panel.stress; quadratic strain terms of cfstrain accumulated per series term; uvw_stiffener slices)'),
    technique='contracts + symbolic execution (generic-iteration loop schema with sum terms); exact normal form'),
 'C13': dict(
    category='proof',
    text=('PanelAssembly.__init__/get_size/calc_k0/calc_kG0/calc_kM/calc_kT/calc_fint/calc_fext and StiffPanelBay.get_size/calc_k0/calc_kG0/calc_kM are '
          'executed symbolically from the real source (panels built by the real Panel constructor, kernels and stiffener matrices through their contracts): '
          'ranges are consecutive and disjoint, size equals the sum of the component sizes, every component is evaluated with the global size at its own '
          'offset (2-D stiffeners at the skin block plus the sizes of the 2-D stiffeners before them), the result is the (symmetrised) sum of exactly those '
          'terms plus the connection matrix, each point force contributes F.g of its own panel at that panel\'s range with incrementable forces scaled.  '
          'The nine stiffener kernels (bladestiff1d fk0f/fkG0f/fkMf, bladestiff2d fkCss/fkCsf/fkCff, tstiff2d fkCppy1y2/fkCpby1y2/fkCbbpby1y2) are extracted from '
          'the .pyx text and proved, entry by entry for symbolic indices, to be the Hessian of one quadratic functional each (beam energy of the flange on the line '
          'y = ys; kinetic energy of the flange over its height; mismatch energy skin line <-> flange edge; mismatch energy skin strip <-> base surface with the '
          'sub-interval and mapped-coordinate table contracts); BladeStiff1D and BladeStiff2D (__init__, _rebuild, calc_k0/kG0/kM) are executed symbolically: '
          'arguments, beam constants, offsets, placement, penalty constants; positive semi-definiteness of the added stiffness and mass is the z3 / normal-form '
          'obligation that the weight matrix of each functional is positive semi-definite for every value the class can pass.'),
    design_ref='DESIGN.md section 4 (C13), 10.7',
    note=('bounded in the NUMBER of components (1..3 panels, 0..2 stiffeners of each kind, 0..2 forces; flange laminates of 1..3 plies in BladeStiff1D) with all '
          'sizes/positions/series orders symbolic; component matrices through kernel contracts (C02-C04, C12); TStiff2D.calc_k0 is under contract in C12, its '
          'calc_kG0/calc_kM in py_stiffeners; the bay constructors add_panel / add_bladestiff1d / add_bladestiff2d / add_tstiff2d are under contract; skin-partition additivity rests on the sub-interval additivity of the table contracts (C10); 3 known findings (BladeStiff2D base placed from skin thicknesses that are not derived yet; 1-D blade '
          'flange stiffness indefinite for flange laminates with extension-shear coupling)'),
    technique='contracts + symbolic execution of the Python ast; exact normal form for offsets; kernel contracts'),
 'C05': dict(
    category='proof',
    text=('analysis.lb and Panel.lb are executed symbolically over abstract arrays with symbolic sizes (size, number of non-null columns, requested count): '
          'every array operation that numpy rejects for incompatible shapes forks the path, so exception freedom is a z3 (LIA) obligation for all sizes; '
          'on every returning path the matrices handed to the solver (KG as operator, K as metric, restricted to the non-null columns of K after the '
          'fall-back), the solver keywords, the back-transform lambda=-1/mu (with the lemma (K+lambda KG)v=0), the scatter of the modes into the rows of '
          'the non-null columns (zeros elsewhere) and the argument pass-through of Panel.lb to calc_k0/calc_kG0 are checked.  ConeCyl.lb is executed the same way for '
          'the four load cases (series block [num0:, num0:], fixed part of the geometric stiffness added to K, both solver attempts, zero rows for the prescribed amplitudes), and so is '
          'ConeCyl.eigen, a second copy of that wrapper.'),
    design_ref='DESIGN.md section 4 (C05/C06)', note=EIG_NOTE + '; 21 known findings (requested count not smaller than the active set: lb, Panel.lb, ConeCyl.lb, ConeCyl.eigen), 2 fixed defects',
    technique='contracts + symbolic execution with abstract shapes; z3 (LIA) shape obligations; assumed solver contracts'),
 'C06': dict(
    category='proof',
    text=('analysis.freq executed symbolically over abstract arrays for both solver switches, sort on/off, reduced_dof on/off: exception freedom for all sizes, '
          'operators/keywords handed to eigs/eig, the transforms sqrt(w) / sqrt(-1/nu) (with the lemma K v = omega^2 M v), and the pairing obligation that '
          'values and modes go through the same sort permutation and >1e-6 filter.  Panel.freq (duplicate implementation) is executed the same way for '
          'atype 1..4 without damping: K is the sum of the panel\'s own matrices selected by atype, M = kM, each computed by the corresponding calc_* method, '
          'both operands of the dense solver are checked.'),
    design_ref='DESIGN.md section 4 (C05/C06)', note=EIG_NOTE + '; the damping=True branch of Panel.freq is not a K v = omega^2 M v problem and is outside the statement '
    '(it cannot run: calc_cA is called without its required argument); 42 known findings (10 in analysis.freq, the same two defects 32 times in Panel.freq), 1 fixed defect',
    technique='contracts + symbolic execution with abstract shapes; z3 (LIA) shape obligations; assumed solver contracts'),
 'C09': dict(
    category='proof',
    text=('_solver_NR is executed symbolically from the real source with uninterpreted user callables; the load-step, iteration and bisection loops '
          'carry inductive invariants (inc>0, total-inc == last reported factor, total<=1, not-converged at the iteration loop head) that z3 proves '
          'initially and across every path of the loop bodies (all interleavings of converged / diverged / too-slow / iteration-limit outcomes, '
          'modified and full Newton, line search on/off). At every report the obligations max|fext(t)-fint(c,t)|<absTOL for exactly the appended pair, '
          't strictly greater than the previous report and in (0,1], the state being a fresh copy never updated in place afterwards, are discharged; '
          'Analysis.static dispatch is checked the same way.  Termination: all four loops carry ranking functions discharged at every back edge '
          '(load steps: (1-total) + 2 inc with a ghost positive lower bound of the increment; bisection: inc; iterations and line search: counters).'),
    design_ref='DESIGN.md section 4 (C09), 10.21',
    note=('real arithmetic; callables pure and returning; numpy scalar division does not raise; the linear-problem clause (full load, linear solution) is proved for line_search=False under exact solve '
          '(for line_search=True a bounded run-time contract grid on the real driver stands in, labelled bounded); 4 known findings '
          '(last load factor within 1e-3 of 1 instead of equal to 1)'),
    technique='loop invariants on the real ast, havoc-and-assume VC generation, z3 (QF_LRA/NRA)'),
 'C19': dict(
    category='proof',
    text=('fkAx/fkAy/fcA of the flat, w-only and cylindrical kernels proved entry-wise against the piston-theory bilinear forms (symbolic indices and inputs); '
          'the integration-by-parts lemma that turns the code form into the statement form and yields skew-symmetry / zero diagonal with w restrained on the '
          'flow edges is proved exhaustively over the 900 table pairs; Panel.calc_kA (Mach-route formulas, flow dispatch, completion) and calc_cA are '
          'executed symbolically with argument and structure obligations: the flow-derivative part is completed skew-symmetrically, the curvature part (separate kernel call with beta = 0) symmetrically.'),
    design_ref='DESIGN.md section 4 (C19)', note=KERNEL_NOTE + '; StiffPanelBay.calc_kA is proved equal to the full-domain panel\'s calc_kA with the bay\'s size and coefficients (1..2 skin panels, 0..1 2-D stiffeners, first request included; 1 fixed defect); 2 fixed defects (bay size/coefficients; curvature part completed skew-symmetrically, 8 obligations); 2 known findings (StiffPanelBay.calc_cA cannot run)',
    technique='contracts on kernels and Python methods; symbolic execution; exact normal form + z3'),
 'C02': dict(
    category='proof',
    text=('fk0 and fk0y1y2 of the plate, w-only plate, cylindrical and conical kernels are extracted mechanically from the .pyx on every run and '
          'executed symbolically for generic loop indices (i,j,k,l), symbolic m,n, geometry, laminate, 24 edge flags, sub-interval and offsets; each '
          'emitted value is proved equal to the Hessian entry of the Donnell CLT strain energy of the package\'s own series (spec built from strain '
          'operators and exact Bardell integrals), together with placement, upper-triangle completeness, slot capacity, exception freedom and frame; '
          'Panel.__init__/_rebuild/get_size/_get_lam_F/calc_k0 are executed symbolically over 384 shape configurations and the kernel calls they make '
          'are proved to carry exactly the panel definition (laminate with offset, r, alpha, sub-interval, pre-load, size/offsets).'),
    design_ref='DESIGN.md section 4 (C02)', note=KERNEL_NOTE + '; 18 known findings (cone slope sign)',
    technique='contracts on kernels and Python methods; VCs from the ast by symbolic execution; exact normal form + z3 (LIA/NRA side obligations)'),
 'C03': dict(
    category='proof',
    text=('fkG0/fkG0y1y2 of all four panel kernels proved entry-wise equal to the Hessian of 1/2 int(Nxx w,x^2 + 2Nxy w,x w,y + Nyy w,y^2) for symbolic '
          'indices and inputs (hence w-only, symmetric, linear in the resultants); Panel.calc_kG0 executed symbolically over its shape configurations '
          'with argument pass-through obligations.'),
    design_ref='DESIGN.md section 4 (C03)', note=KERNEL_NOTE + '; the state-based kernel fkG_num is proved at integrand level (resultants N = A eps + B kappa of the state, uniform and per-point table)',
    technique='contracts on kernels and Python methods; symbolic execution; exact normal form + z3'),
 'C04': dict(
    category='proof',
    text=('fkM/fkMy1y2 of all four panel kernels proved (or refuted) entry-wise against the Hessian of the kinetic energy with the reference-surface '
          'convention of the laminate; Panel.calc_kM executed symbolically with argument pass-through obligations (offset, sub-interval, size); '
          'fkMf of the 1-D blade stiffener against the kinetic energy of the flange strip and BladeStiff1D.calc_kM (arguments h, hb, hf, df; flange plies 1..3).'),
    design_ref='DESIGN.md section 4 (C04)', note=KERNEL_NOTE + '; 1 fixed defect (sign of the offset coupling, 24 obligations); 1 known finding (BladeStiff2D base placed from skin thicknesses that are not derived yet)',
    technique='contracts on kernels and Python methods; symbolic execution; exact normal form + z3'),
 'C01': dict(
    category='proof',
    text=('read_laminaprop (3/6/9-entry tuples), Lamina.rebuild, Laminate.rebuild, Laminate.calc_constitutive_matrix and read_stack are '
          'parsed from /repo and executed symbolically; QL is proved equal to the 4th/2nd-order tensor rotation of the plane-stress '
          'stiffness (polynomial identities modulo sin^2+cos^2=1), the ply loop of calc_constitutive_matrix is proved by induction on a '
          'symbolic ply count (base + step against the exact layer integrals of weights 1, z, z^2, from -t/2+offset), the A/B/D/E/ABD/ABDE '
          'block placement and symmetry are post-conditions, every division gets a z3 non-vanishing obligation under the admissibility '
          'pre-condition, and the offset / mirror / positive-definiteness consequences are lemmas over those contracts.'),
    design_ref='DESIGN.md section 4 (C01)',
    note=('real instead of float arithmetic; numpy array primitives and sin/cos laws assumed (A3, A4); read_stack list construction and the '
          'code-level lemma re-checks are bounded in the ply count (N<=3, labelled bounded in evidence); final step of the positive-definiteness '
          'argument (integral of a sum of squares) is not machine-checked; 3 known findings (ZeroDivisionError for singular 3-D ply laws)'),
    technique='sidecar contracts + symbolic execution of the Python ast; loop invariant by induction; exact normal form + z3'),
 'C10': dict(
    category='proof',
    text=('Every arm of every table function in compmech/lib/src (6 full-interval, 6 sub-interval, 5 mapped-argument integral '
          'families x 900 index pairs, 6 function tables x 30, Gauss rules n=2..64) is parsed from the C source on each run and '
          'proved equal, as a polynomial in the flags / xi / (xi1,xi2) / (c0,c1), to the exact Bardell polynomial or integral '
          'computed from the defining formula: finite index domain enumerated completely, real parameters symbolic, so the '
          'statement holds for all real arguments. Gauss rules: exactness of all moments up to 2n-1 to the rounding bound of '
          'the binary64 literals.  integrate.pyx: trapz_quad/trapz2d_points and simps2d_points are executed symbolically for symbolic numbers of points '
          '(even and odd, rounded up as the code does); the weighted sum of x^p y^q over all emitted points is evaluated in closed form with the power-sum '
          'formulas (induction lemma) and equals the exact integral for p, q <= 1 (trapezoid) and <= 3 (Simpson), weights sum to the area, betas are one, '
          'the number of points equals the array length.'),
    design_ref='DESIGN.md section 4 (C10)',
    note=('trusted: own C-subset parser and exact rational normaliser (cross-checked by z3 on a seeded sample and by a canary); '
          'real arithmetic instead of binary64 inside an arm; literals compared under a 5e-14 relative tolerance; '
          'np.linspace element formula assumed for the Simpson points'),
    technique='contract per table arm; VC = polynomial identity, discharged by exact normal form + z3 re-check'),
}

PENDING_REASON = 'check not built yet (work in progress, see DESIGN.md section 7)'

m = {"version": 1,
     "setup_cmd": "mkdir -p /verif/.build /verif/evidence /verif/replays",
     "hooks": {"guard": "COMPMECH_VERIF",
               "enable": "no source hooks are needed: contracts live in /verif/cmverif (sidecar) and the checks read /repo's working tree directly; COMPMECH_VERIF guards nothing",
               "baseline_off_cmd": "cd /repo && /venv/bin/python -m pytest -ra -q -p no:cacheprovider --timeout=900 --continue-on-collection-errors",
               "source_commits": [], "add_only": True},
     "engines": [{"name": "cmverif", "path": "/verif/cmverif", "serves_properties": sorted(CHECKS),
                  "kind_free_text": "sidecar contracts + own VC generator (C-subset parser, .pyx->ast extraction, Python ast symbolic executor), exact polynomial normal form, z3/cvc5"}],
     "checks": [], "notes": "see DESIGN.md", "not_applicable": []}
for p in props:
    pid = p['id']
    if pid in CHECKS:
        c = CHECKS[pid]
        m['checks'].append({
            "property_id": pid,
            "quick_cmd": "./check %s quick" % pid,
            "thorough_cmd": "./check %s thorough" % pid,
            "evidence_file": "/verif/evidence/%s.json" % pid,
            "replay_cmd_template": "PYTHONPATH=/verif python3-vt -m cmverif replay {path}",
            "engine": "cmverif",
            "level_claimed": {"category": c['category'], "text": c['text'], "design_ref": c['design_ref']},
            "level_note": c['note'],
            "technique": c['technique']})
    else:
        m['not_applicable'].append({"property_id": pid, "reason": PENDING_REASON})
json.dump(m, open(os.path.join(HERE, 'MANIFEST.json'), 'w'), indent=1)
print('checks:', [c['property_id'] for c in m['checks']])
