#!/bin/bash
# usage: seedreg.sh  -> for every seeded change: apply to a scratch copy, run the property's quick check, print the exit code
cd /verif
for d in seeded/*/; do
  name=$(basename $d); prop=$(python3 -c "import json;print(json.load(open('$d/meta.json'))['property'])")
  rm -rf /tmp/scr; mkdir -p /tmp/scr; rsync -a --exclude '*.so' --exclude '*.pyc' --exclude 'lib/src/*.o' /repo/compmech /tmp/scr/
  if ! (cd /tmp/scr && patch -p1 --dry-run < /verif/$d/patch.diff >/dev/null 2>&1); then echo "$name: PATCH-DOES-NOT-APPLY"; continue; fi
  (cd /tmp/scr && patch -p1 < /verif/$d/patch.diff >/dev/null 2>&1)
  out=$(CMVERIF_REPO=/tmp/scr timeout 1500 ./check $prop 2>&1 | tail -1 | cut -c1-140)
  echo "$name: $out"
done
rm -rf /tmp/scr /verif/replays/*.json
