#!/bin/bash
# usage: [SEEDS='^(C01|C03)-'] seed_regression.sh [K N]   (SEEDS: extended regular expression on the seed name)  -> for every seeded change (or those whose index i has i % N == K): apply it to a scratch copy of
# /repo's compmech under /tmp, run the quick check of its property on that copy, print the last line (exit code). Not a registered command.
K=${1:-0}; N=${2:-1}
cd /verif
scr=/tmp/scr_reg_$K
i=-1
for d in seeded/*/; do
  i=$((i+1)); [ $((i % N)) -eq $K ] || continue
  name=$(basename $d); if [ -n "$SEEDS" ]; then echo "$name" | grep -Eq "$SEEDS" || continue; fi; prop=$(python3 -c "import json;print(json.load(open('$d/meta.json'))['property'])")
  rm -rf $scr; mkdir -p $scr; rsync -a --exclude '*.so' --exclude '*.pyc' --exclude 'lib/src/*.o' /repo/compmech $scr/
  if ! (cd $scr && patch -p1 --dry-run < /verif/$d/patch.diff >/dev/null 2>&1); then echo "$name: PATCH-DOES-NOT-APPLY"; continue; fi
  (cd $scr && patch -p1 < /verif/$d/patch.diff >/dev/null 2>&1)
  out=$(CMVERIF_REPO=$scr timeout 1800 ./check $prop 2>&1 | tail -1 | cut -c1-140)
  echo "$name: $out"
done
rm -rf $scr
