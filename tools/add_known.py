#!/usr/bin/env python3
"""manual triage helper: python3 tools/add_known.py <PID> <substring-of-obligation> "<what fails>" ["<why not fixed>"]
copies (obligation, signature) of matching replay files of the last run into known_findings.json"""
import glob, json, os, sys
HERE = os.path.dirname(os.path.dirname(os.path.abspath(__file__)))
pid, sub, what = sys.argv[1:4]
why = sys.argv[4] if len(sys.argv) > 4 else ''
kf = json.load(open(os.path.join(HERE, 'known_findings.json')))
have = {(k['property'], k['obligation']) for k in kf['findings']}
n = 0
for f in sorted(glob.glob(os.path.join(HERE, 'replays', pid + '-*.json'))):
    r = json.load(open(f))
    if sub not in r['obligation'] or (pid, r['obligation']) in have:
        continue
    e = {'property': pid, 'obligation': r['obligation'], 'signature': r.get('signature'), 'what': what}
    if why:
        e['why_not_fixed'] = why
    rep = r.get('replay') or {}
    if rep.get('input'):
        e['failing_input'] = rep['input']
    kf['findings'].append(e)
    n += 1
json.dump(kf, open(os.path.join(HERE, 'known_findings.json'), 'w'), indent=1)
print('added', n)
