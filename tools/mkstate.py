#!/usr/bin/env python3
"""regenerate the table of DESIGN.md section 11 from evidence/*.json and known_findings.json"""
import json, re, subprocess, os
root = os.path.dirname(os.path.dirname(os.path.abspath(__file__)))
kf = json.load(open(os.path.join(root, 'known_findings.json')))
rows = []
for i in range(1, 21):
    pid = 'C%02d' % i
    ev = json.load(open(os.path.join(root, 'evidence', pid + '.json')))
    cov = ev['coverage']
    nfun = len(cov.get('functions_under_contract') or {})
    rec = sum(1 for f in kf['findings'] if f['property'] == pid)
    fixed = sum(1 for f in kf['fixed'] if ('property=%s ' % pid) in f)
    rows.append('| %s | %d | %d | %d | %d | %d | %d |' % (pid, nfun, cov.get('discharged', 0), cov.get('refuted_known_findings', 0), rec, fixed,
                                                       len(cov.get('bounded_stand_ins_not_counted_as_proved') or [])))
nfix = len([l for l in subprocess.check_output(['git', '-C', '/repo', 'log', '--format=%s']).decode().splitlines() if l.startswith('fix:')])
p = os.path.join(root, 'DESIGN.md')
s = open(p).read()
head = '| property | functions under contract | obligations discharged (quick) | obligations refuted = known findings hit | recorded findings | fixed defects | bounded items |\n|---|---|---|---|---|---|---|\n'
i = s.index(head) + len(head)
j = s.index('\n\n', i)
s = s[:i] + '\n'.join(rows) + s[j:]
s = re.sub(r'`/repo` carries \d+ `fix:` commits', '`/repo` carries %d `fix:` commits' % nfix, s)
open(p, 'w').write(s)
print('\n'.join(rows)); print(nfix, 'fix commits')
